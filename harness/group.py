"""H-GR: real ConsumerGroup + real KafkaClient + SimCluster group coordinator
(one real member plus an optional phantom member played by the simulator).
Serves C16 (generation fencing) and C17 (progress toward stable membership).
"""
from harness.base import ClientWorld, F, S, Z
from ref import refkafka as rk
from ref import simgroup

GROUP = "grp"
GROUP_APIS = (rk.JOIN_GROUP, rk.SYNC_GROUP, rk.HEARTBEAT, rk.LEAVE_GROUP)


class GroupWorld(ClientWorld):
    """cfg: topics=[...subscribed...], logs={"t/0": n messages, ...}, group={leader, phantom_topics, phantom_active},
    processor ("sync"|"async"), proc_raises (invocation index that raises a non-Kafka error),
    backoffs {initial, retry, fatal, heartbeat (ms)}, script [["start"], ["stop", guard]]"""

    PROP = "C16"

    def setup(self):
        from afkak import ConsumerGroup
        self.PROP = self.cfg.get("prop", "C16")
        cfg = self.cfg
        for tp, n in sorted(cfg.get("logs", {}).items()):
            t, p = tp.split("/")
            log = self.cluster.logs[(t, int(p))]
            for i in range(n):
                log.append_plain(b"k%d" % i, ("%s-%s-%d" % (t, p, i)).encode(), timestamp=7)
        for tp, off in sorted(cfg.get("stored", {}).items()):
            t, p = tp.split("/")
            self.cluster.offsets[(GROUP, t, int(p))] = (off, "")  # committed by an earlier incarnation of the group
        self.cluster.group_defaults[GROUP] = dict(cfg.get("group", {}))
        bo = cfg.get("backoffs", {})
        self.backoffs = {"initial": bo.get("initial", 1000), "retry": bo.get("retry", 100),
                         "fatal": bo.get("fatal", 10000), "heartbeat": bo.get("heartbeat", 2000)}
        # long-poll for 3 s so that an idle member does not burn the step budget on empty fetches
        ck = {"buffer_size": 300, "auto_commit_every_n": cfg.get("commit_every_n", 1),
              "auto_commit_every_ms": cfg.get("commit_every_ms", 0), "fetch_max_wait_time": 3000}
        self.mode = cfg.get("processor", "sync")
        self.group = ConsumerGroup(self.client, GROUP, list(cfg.get("topics", ["t"])), self.processor,
                                   consumer_kwargs=ck, session_timeout_ms=cfg.get("session_timeout_ms", 30000),
                                   heartbeat_interval_ms=self.backoffs["heartbeat"],
                                   initial_backoff_ms=self.backoffs["initial"],
                                   retry_backoff_ms=self.backoffs["retry"], fatal_backoff_ms=self.backoffs["fatal"])
        self.step = 0
        self.start_rec = None  # [fired, result, step]
        self.stop_rec = None  # [called step, fired, result, fire step]
        self.invocations = []
        self.proc_pending = []
        # membership as seen on the wire
        self.member = ""  # id from the latest successful join
        self.generation = None
        self.assigned = None  # {topic: [partitions]} of the latest successful sync; None = not stable
        self.join_outstanding = 0
        self.sync_outstanding = 0
        self.state = "out"  # out | joining (JoinGroup written, no successful sync yet) | stable
        self.evicted = False
        self.wire_log = []  # (step, api, summary)
        self.first_fetch_after_sync = {}  # (topic, partition) -> offset
        self.sync_step = None
        self.delivered = {}  # (topic, partition) -> [offsets]
        self._clock_seen = 0
        self.rejoin_timers = []
        self.last_condition = None
        self.fault_steps = []
        self.last_fault_time = 0.0
        self.stable_again_at = None
        self.nonkafka_raised = False
        self.heartbeats = 0
        self.commit_rejected = False

    # ------------------------------------------------------------------ processor
    def processor(self, consumer, msgs):
        from twisted.internet.defer import Deferred
        tp = (consumer.topic, consumer.partition)
        n = len(self.invocations)
        self.invocations.append((self.step, tp, [m.offset for m in msgs]))
        self.delivered.setdefault(tp, []).extend(m.offset for m in msgs)
        if self.PROP == "C16":
            if self.state != "stable" or self.assigned is None or tp[1] not in (self.assigned.get(tp[0]) or []):
                self.viol("fencing", "processor-invoked-outside-current-assignment",
                          "processor invoked for %s/%d at step %d while the member is %s with assignment %r" % (
                              tp[0], tp[1], self.step, self.state, self.assigned))
            if self.stop_rec is not None and self.stop_rec[1]:
                self.viol("stop", "processor-invoked-after-stop-completed", "processor invoked after stop() fired")
        if self.cfg.get("stop_in_processor") is not None and n == self.cfg["stop_in_processor"] and \
                self.stop_rec is None:
            # the application decides, while handling a message, to leave the group; the processor then returns
            # normally (its messages count as processed)
            self.do_app(["stop"])
            return None
        if self.cfg.get("proc_raises") is not None and n == self.cfg["proc_raises"]:
            self.nonkafka_raised = True
            self.nonkafka_at = self.clock.seconds()
            raise ValueError("application bug in processor (non-Kafka error)")
        if self.mode == "sync":
            return None
        d = Deferred(lambda d: self.proc_pending.remove(d) if d in self.proc_pending else None)
        self.proc_pending.append(d)
        return d

    def mid_events(self, io_default):
        ev = []
        if self.proc_pending:
            if not io_default:
                ev.append(("proc:ok", Z))
            elif self.menu.get("proc_early"):
                ev.append(("proc:ok", S))
            if self.menu.get("proc_fail") and not self.nonkafka_raised:
                ev.append(("proc:raise", F))  # the application's processing fails with a non-Kafka error
        return ev

    def do_extra(self, label):
        if label == "proc:ok":
            d = self.proc_pending.pop(0)
            d.callback(None)
        elif label == "proc:raise":
            d = self.proc_pending.pop(0)
            self.nonkafka_raised = True
            self.nonkafka_at = self.clock.seconds()
            d.errback(ValueError("application bug in processor (non-Kafka error, asynchronous)"))
        else:
            raise ValueError(label)

    # ------------------------------------------------------------------ app
    def do_app(self, op):
        if op[0] == "start":
            d = self.group.start()
            self.start_rec = [0, None, None]

            def fired(res):
                self.start_rec[0] += 1
                self.start_rec[1] = res
                self.start_rec[2] = self.step
                return None
            d.addBoth(fired)
        elif op[0] == "stop":
            self.stop_rec = [self.step, 0, None, None]
            try:
                d = self.group.stop()
            except Exception as e:
                self.stop_rec[1], self.stop_rec[2], self.stop_rec[3] = 1, e, self.step
                return

            def fired(res):
                self.stop_rec[1] += 1
                self.stop_rec[2] = res
                self.stop_rec[3] = self.step
                return None
            d.addBoth(fired)
        elif op[0] == "append":
            t, p = op[1].split("/")
            log = self.cluster.logs[(t, int(p))]
            for v in op[2]:
                log.append_plain(b"late", v.encode("latin-1"), timestamp=7)
            self.cluster.wake_fetches((t, int(p)))
        elif op[0] == "add_partition":
            self.cluster.add_partition(op[1], op[2], op[3])
        else:
            raise ValueError(op)

    def app_guard(self, op):
        g = op[-1] if isinstance(op[-1], dict) else None
        if g and g.get("consumed") and not self.caught_up():
            return False
        if g and "time" in g and self.clock.seconds() < g["time"]:
            return False
        return True

    def app_early_ok(self, op):
        if op[0] == "stop":
            return self.start_rec is not None and self.stop_rec is None
        return True

    # ------------------------------------------------------------------ ground truth helpers
    def coordinator_assignment(self):
        return simgroup.current_assignment(self.cluster, GROUP)

    def caught_up(self):
        """Member stable in the coordinator's current generation, and everything assigned has been consumed."""
        asg = self.coordinator_assignment()
        if asg is None:
            return False
        g = self.cluster.groups.get(GROUP)
        if g is None or g.rebalance_pending or self.generation != g.generation or self.member != g.real_id:
            return False
        for t, parts in asg.items():
            for p in parts:
                log = self.cluster.logs.get((t, p))
                if log is None:
                    continue
                stored = self.cluster.offsets.get((GROUP, t, p), (None, ""))[0]
                want = [o for o, _k, _v in log.all_leaves() if stored is None or o > stored]
                got = self.delivered.get((t, p), [])
                if want and (not got or got[-1] != want[-1]):
                    return False
                if not want and (t, p) not in self.first_fetch_after_sync:
                    return False
        return True

    def quiescent(self):
        if self.proc_pending:
            return False
        if self.nonkafka_raised and self.start_rec is not None and not self.start_rec[0] and \
                self.clock.seconds() < getattr(self, "nonkafka_at", 0.0) + 30.0:
            return False  # the error has to travel to start()'s Deferred (the member leaves the group first)
        if self.stop_rec is not None:
            # timers the group or its consumers left behind are run (up to the horizon): what they may not do is
            # issue a request after stop() -- judged on the wire
            return bool(self.stop_rec[1]) and not self.group_timers()
        if self.start_rec is not None and self.start_rec[0]:
            return True
        return self.caught_up()

    def group_timers(self):
        from afkak.consumer import Consumer
        out = []
        for call in self.clock.pending():
            owner = getattr(call.func, "__self__", None)
            tgt = getattr(owner, "f", None) if type(owner).__name__ == "LoopingCall" else None
            own = getattr(tgt, "__self__", owner)
            if isinstance(own, Consumer) or own is self.group:
                out.append(call)
        return out

    # ------------------------------------------------------------------ wire monitor
    def on_frame(self, conn, req):
        p = req.parsed
        if self.PROP == "C04":
            self.c04_frame(req)
        if p is None or p["body"] is None:
            return
        api = p["api_key"]
        body = p["body"]
        name = rk.API_NAMES.get(api, api)
        self.harvest()
        self.wire_log.append((self.step, api))
        c16 = self.PROP == "C16"
        if self.stop_rec is not None and c16:
            if self.stop_rec[1] and api in GROUP_APIS + (rk.FETCH, rk.OFFSET_COMMIT, rk.OFFSET_FETCH):
                self.viol("stop", "request-after-stop-completed:%s" % name,
                          "a %s request was written after the stop() Deferred fired" % name)
            elif api in (rk.JOIN_GROUP, rk.SYNC_GROUP, rk.HEARTBEAT):
                self.viol("stop", "group-request-after-stop-called:%s" % name,
                          "a %s request was written at step %d, after stop() was called at step %d (only the leave "
                          "is allowed)" % (name, self.step, self.stop_rec[0]))
        if api == rk.JOIN_GROUP:
            self.join_outstanding += 1
            if c16 and (self.join_outstanding > 1 or self.sync_outstanding):
                self.viol("exchange", "second-join-or-sync-in-flight",
                          "a JoinGroup was written while %d join / %d sync request(s) are outstanding" % (
                              self.join_outstanding - 1, self.sync_outstanding))
            if c16 and self.proc_pending:
                self.viol("fencing", "join-written-while-processor-busy",
                          "a JoinGroup was written while a processor invocation of the previous generation is "
                          "still pending")
            unanswered_commits = [r for r in self.cluster.journal if r.parsed and r.parsed["api_key"] ==
                                  rk.OFFSET_COMMIT and not r.answered and self.conn_open(r.cid)]
            if c16 and unanswered_commits:
                self.viol("fencing", "join-written-while-commit-in-flight",
                          "a JoinGroup was written while an OffsetCommit of the previous generation is unanswered")
            # the previous generation's consumers have committed their progress, unless a commit was rejected
            # (nor after an eviction answer: the coordinator would refuse the commit, the consumers are just stopped)
            if c16 and self.last_assigned and not self.commit_rejected and not self.evicted and \
                    self.cfg.get("commit_every_n", 1):
                for t, parts in self.last_assigned.items():
                    for pn in parts:
                        got = self.delivered.get((t, pn), [])
                        stored = self.cluster.offsets.get((GROUP, t, pn), (None, ""))[0]
                        if got and (stored is None or stored < got[-1]) and self.mode == "sync":
                            self.viol("fencing", "rejoin-without-committing-progress",
                                      "JoinGroup written while %s/%d was processed up to offset %d but the group's "
                                      "committed offset is %r (no commit was rejected)" % (t, pn, got[-1], stored))
            self.state = "joining"
            self.assigned = None
        elif api == rk.SYNC_GROUP:
            if self.PROP == "C15" and body["assignments"]:
                self.c15_sync(body)
            self.sync_outstanding += 1
            if c16 and (self.sync_outstanding > 1 or self.join_outstanding):
                self.viol("exchange", "second-join-or-sync-in-flight",
                          "a SyncGroup was written while %d sync / %d join request(s) are outstanding" % (
                              self.sync_outstanding - 1, self.join_outstanding))
        elif api == rk.HEARTBEAT:
            self.heartbeats += 1
            if c16:
                if self.state != "stable":
                    self.viol("heartbeat", "heartbeat-while-not-stable",
                              "a Heartbeat was written while the member is %s" % self.state)
                if (body["generation"], body["member"]) != (self.generation, self.member):
                    self.viol("heartbeat", "heartbeat-with-stale-ids",
                              "Heartbeat carries (%r, %r), current (%r, %r)" % (
                                  body["generation"], body["member"], self.generation, self.member))
        elif api == rk.FETCH and c16:
            for t in body["topics"]:
                for part in t["partitions"]:
                    tp = (t["topic"], part["partition"])
                    # a fetch call issued before an eviction answer / during a graceful shutdown may still reach
                    # the wire (it waited for a leader lookup); what must not happen is a fetch once the JoinGroup
                    # of the next generation is out, or for a partition the member never owned
                    stopping_tail = self.state == "out" and \
                        tp[1] in ((self.last_assigned or {}).get(tp[0]) or [])
                    if (self.state != "stable" or self.assigned is None or tp[1] not in (
                            self.assigned.get(tp[0]) or [])) and not stopping_tail:
                        self.viol("fencing", "fetch-outside-current-assignment",
                                  "a Fetch for %s/%d was written while the member is %s with assignment %r" % (
                                      tp[0], tp[1], self.state, self.assigned))
                    if tp not in self.first_fetch_after_sync:
                        self.first_fetch_after_sync[tp] = part["offset"]
                        stored = self.cluster.offsets.get((GROUP,) + tp, (None, ""))[0]
                        log = self.cluster.logs.get(tp)
                        if stored is not None and stored >= 0 and part["offset"] != stored + 1:
                            self.viol("fencing", "consumer-does-not-start-from-committed-position",
                                      "first fetch of %s/%d in generation %r is at %d, the group's committed offset "
                                      "is %d" % (tp[0], tp[1], self.generation, part["offset"], stored))
        elif api == rk.FETCH:
            for t in body["topics"]:
                for part in t["partitions"]:
                    self.first_fetch_after_sync.setdefault((t["topic"], part["partition"]), part["offset"])
        elif api == rk.OFFSET_COMMIT and c16:
            if self.stop_rec is None or not self.stop_rec[1]:
                pass
            if (body["generation"], body["member"]) != (self.generation, self.member):
                self.viol("fencing", "commit-with-stale-generation-or-member",
                          "OffsetCommit carries (%r, %r); the member's latest successful join gave (%r, %r)" % (
                              body["generation"], body["member"], self.generation, self.member))
            for t in body["topics"]:
                for part in t["partitions"]:
                    asg = self.last_assigned or {}
                    if part["partition"] not in (asg.get(t["topic"]) or []):
                        self.viol("fencing", "commit-for-unassigned-partition",
                                  "OffsetCommit for %s/%d, latest assignment %r" % (t["topic"], part["partition"], asg))
            if self.state == "joining":
                self.viol("fencing", "commit-written-during-join",
                          "an OffsetCommit was written after the JoinGroup of the next generation")

    last_assigned = None
    parts_at_join = None
    join_members = None

    def c15_sync(self, body):
        """The leader's SyncGroup request of this generation: every partition that existed when the leader was
        elected is given to exactly one subscriber; nothing that does not exist (now) is handed out."""
        members = self.join_members or {}
        if body["generation"] != self.generation:
            return  # judged by C16
        owners = {}
        got_members = [a["member"] for a in body["assignments"]]
        if sorted(got_members) != sorted(members):
            self.viol("in-situ-assignment", "sync-request-members",
                      "SyncGroup assigns to %r, the JoinGroup answer listed %r" % (got_members, sorted(members)))
        for a in body["assignments"]:
            try:
                dec = rk.ASSIGNMENT.dec(rk.Reader(a["assignment"]))
            except rk.ParseError as e:
                self.viol("in-situ-assignment", "assignment-blob-does-not-parse", "%s: %s" % (a["member"], e))
                continue
            for t in dec["topics"]:
                for pn in t["partitions"]:
                    owners.setdefault((t["topic"], pn), []).append(a["member"])
        subscribed = sorted(set(t for ts in members.values() for t in ts))
        now = {t: list(self.cluster.partitions(t)) for t in self.cluster.topics()}
        for t in subscribed:
            for pn in (self.parts_at_join or {}).get(t, []):
                o = owners.get((t, pn), [])
                if len(o) != 1:
                    self.viol("in-situ-assignment", "partition-owned-by-%s" % ("nobody" if not o else "several"),
                              "generation %r: partition %s/%d (existing when the leader was elected: %r) is assigned "
                              "to %r; request assigns %r" % (self.generation, t, pn, self.parts_at_join, o,
                                                            sorted(owners)))
        for (t, pn), o in sorted(owners.items()):
            if pn not in now.get(t, []):
                self.viol("in-situ-assignment", "phantom-partition",
                          "generation %r: %s/%d assigned to %r but the topic has partitions %r" % (
                              self.generation, t, pn, o, now.get(t)))
            for m in o:
                if t not in members.get(m, []):
                    self.viol("in-situ-assignment", "partition-to-non-subscriber",
                              "%s/%d assigned to %r which subscribed to %r" % (t, pn, m, members.get(m)))
            if len(o) > 1:
                self.viol("in-situ-assignment", "partition-owned-by-several", "%s/%d assigned to %r" % (t, pn, o))
        self.c15_syncs = getattr(self, "c15_syncs", 0) + 1

    def conn_open(self, cid):
        return self.net.conns[cid].open

    def on_event(self, label):
        self.harvest()
        self.after_event(label)

    def harvest(self):
        """Process the answers the coordinator / brokers have given so far (called before judging a new frame)."""
        for r in self.cluster.journal:
            if not r.answered or getattr(r, "_seen_gr", False) or not r.parsed or r.parsed["body"] is None:
                continue
            r._seen_gr = True
            api = r.parsed["api_key"]
            if api == rk.JOIN_GROUP:
                self.join_outstanding = max(0, self.join_outstanding - 1)
            if api == rk.SYNC_GROUP:
                self.sync_outstanding = max(0, self.sync_outstanding - 1)
            ans = r.answer
            if ans is None:
                continue
            if api == rk.JOIN_GROUP and ans["error"] == 0:
                self.member = ans["member"]
                self.generation = ans["generation"]
                self.evicted = False
                # C15 in situ: what the leader has to distribute = the partitions that exist when it is elected
                self.parts_at_join = {t: list(self.cluster.partitions(t)) for t in self.cluster.topics()}
                self.join_members = {}
                for m in ans["members"]:
                    try:
                        self.join_members[m["member"]] = list(rk.SUBSCRIPTION.dec(rk.Reader(m["metadata"]))["topics"])
                    except rk.ParseError:
                        self.join_members[m["member"]] = []
            elif api == rk.SYNC_GROUP and ans["error"] == 0:
                a = rk.ASSIGNMENT.dec(rk.Reader(ans["assignment"]))
                self.assigned = {t["topic"]: list(t["partitions"]) for t in a["topics"]}
                self.last_assigned = self.assigned
                self.state = "stable"
                self.sync_step = self.step
                self.first_fetch_after_sync = {}
                self.delivered = {}
                self.commit_rejected = False
                if self.stable_again_at is None and self.fault_steps:
                    self.stable_again_at = self.clock.seconds()
            elif api in GROUP_APIS + (rk.OFFSET_COMMIT,):
                err = ans.get("error")
                if api == rk.OFFSET_COMMIT:
                    err = ans["topics"][0]["partitions"][0]["error"]
                if api == rk.OFFSET_COMMIT and err:
                    self.commit_rejected = True
                if err in (22, 25):
                    self.evicted = True
                    self.state = "out" if self.state == "stable" else self.state
                    self.assigned = None if self.state == "out" else self.assigned
                if err:
                    self.last_condition = (self.step, api, err)

    def after_event(self, label):
        # closed connections forget their outstanding requests
        if label.startswith("drop") or label.startswith("closed") or label.startswith("cluster"):
            live = [r for r in self.cluster.journal if r.parsed and not r.answered and self.conn_open(r.cid)]
            self.join_outstanding = sum(1 for r in live if r.parsed["api_key"] == rk.JOIN_GROUP)
            self.sync_outstanding = sum(1 for r in live if r.parsed["api_key"] == rk.SYNC_GROUP)
        j = self.clock.journal
        while self._clock_seen < len(j):
            now, delay, name = j[self._clock_seen]
            self._clock_seen += 1
            if "join_and_sync" in name:
                self.rejoin_timers.append((now, delay, self.step, self.last_condition))
                self.judge_backoff(delay)
            if self.PROP == "C11" and "_mrtb_timeout" in name:
                # every request timer is the client's timeout, or max(timeout, 35 s) for a JoinGroup
                tmo = self.client.timeout
                joins_now = [w for w in self.wire_log if w[0] == self.step and w[1] == rk.JOIN_GROUP]
                allowed = {tmo, max(tmo, 35.0)}
                if not any(abs(delay - a) < 1e-9 for a in allowed):
                    self.viol("bound", "request-timer-not-timeout-or-join-minimum",
                              "a request timer of %.3f s was armed (client timeout %.3f s, JoinGroup minimum 35 s, "
                              "session timeout %r ms)" % (delay, tmo, self.cfg.get("session_timeout_ms", 30000)))
                self.request_timers = getattr(self, "request_timers", []) + [(self.step, delay, bool(joins_now))]
        kind = label.split(":")[0]
        if kind in ("refuse", "drop", "silent", "bclose") or "err=8" in label:
            self.commit_rejected = True  # a lost or refused commit excuses the missing progress
        if kind in ("refuse", "drop", "silent", "cluster", "bclose") or "err=" in label:
            self.reacted = True
            self.fault_steps.append(self.step)
            self.last_fault_time = self.clock.seconds()
            self.stable_again_at = None
        self.step += 1

    def judge_backoff(self, delay):
        if self.PROP != "C17":
            return
        allowed = sorted(set(v / 1000.0 for k, v in self.backoffs.items() if k != "heartbeat"))
        if not any(abs(delay - a) < 1e-9 for a in allowed):
            self.viol("backoff", "rejoin-delay-not-a-documented-backoff",
                      "a rejoin was scheduled after %.3f s; documented backoffs are %r" % (delay, allowed))
            return
        cond = self.last_condition
        if cond is not None and cond[0] >= self.step - 1:
            _st, api, err = cond
            want = None
            if api in (rk.JOIN_GROUP, rk.SYNC_GROUP, rk.HEARTBEAT) and err in (27, 22, 25, 16, 15):
                want = self.backoffs["retry"]
            if want is not None and abs(delay - want / 1000.0) > 1e-9:
                self.viol("backoff", "wrong-backoff-for-condition:%d" % err,
                          "error %d on %s scheduled a rejoin after %.3f s, documented backoff %.3f s" % (
                              err, rk.API_NAMES.get(api), delay, want / 1000.0))

    # ------------------------------------------------------------------ explorer protocol
    def finish(self, horizon):
        from afkak.common import KafkaError
        from twisted.python.failure import Failure
        if self.PROP == "C17":
            if self.stop_rec is None:
                started_failed = self.start_rec is not None and self.start_rec[0] and isinstance(
                    self.start_rec[1], Failure)
                if started_failed:
                    if not self.nonkafka_raised and self.start_rec[1].check(KafkaError):
                        self.viol("progress", "start-deferred-fails-with-kafka-error:%s" %
                                  self.start_rec[1].type.__name__,
                                  "the group's start() Deferred failed with %r; Kafka errors are retriable" % (
                                      self.start_rec[1].value,))
                elif self.nonkafka_raised and self.start_rec is not None and not self.start_rec[0]:
                    self.viol("progress", "non-kafka-error-not-surfaced-on-start-deferred",
                              "the processor raised a non-Kafka error but the start() Deferred has not fired")
                elif self.start_rec is not None and not self.caught_up():
                    g = self.cluster.groups.get(GROUP)
                    self.viol("progress", "member-never-stable-again%s" % ("-horizon" if horizon else ""),
                              "faults ceased at t=%.1f; at t=%.1f the member is %s (generation %r, coordinator "
                              "generation %r, assignment %r, delivered %r); pending timers %r; tail %r" % (
                                  self.last_fault_time, self.clock.seconds(), self.state, self.generation,
                                  None if g is None else g.generation, self.coordinator_assignment(),
                                  {k: v[-2:] for k, v in self.delivered.items()},
                                  [getattr(c.func, "__qualname__", c.func) for c in self.clock.pending()][:6],
                                  self.trace[-8:]))
        if self.PROP == "C11":
            tmo = self.client.timeout
            for (st, api) in self.wire_log:
                if api == rk.JOIN_GROUP:
                    # the JoinGroup's own timer was armed when it was issued (at or before the step it was written)
                    if not any(abs(d_ - max(tmo, 35.0)) < 1e-9 and s_ <= st
                               for s_, d_, _j in getattr(self, "request_timers", [])):
                        self.viol("bound", "join-without-its-minimum-timeout",
                                  "a JoinGroup was written at step %d but no request timer of max(timeout, 35 s)=%.1f s "
                                  "was armed for it (timers: %r)" % (st, max(tmo, 35.0),
                                                                     getattr(self, "request_timers", [])[:8]))
                        break
        if self.stop_rec is not None and not self.stop_rec[1]:
            self.viol("stop", "stop-deferred-never-fires%s" % ("-horizon" if horizon else ""),
                      "stop() was called at step %d and its Deferred never fired" % self.stop_rec[0])

    def outcome(self):
        return (self.state, self.generation, tuple(sorted((k, tuple(v)) for k, v in (self.assigned or {}).items())),
                tuple(sorted((k, len(v)) for k, v in self.delivered.items())),
                None if self.start_rec is None else (self.start_rec[0], type(getattr(self.start_rec[1], "value",
                                                                                    self.start_rec[1])).__name__),
                None if self.stop_rec is None else self.stop_rec[1], len(self.rejoin_timers))

    def nontrivial(self):
        if self.PROP == "C15":
            return getattr(self, "c15_syncs", 0) >= 2
        return self.reacted or self.stop_rec is not None
