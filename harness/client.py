"""H-CL: the real KafkaClient driven through its public API on the virtual
cluster.  Serves C07 (routing / payload order / partial failure), C08 (metadata
cache), C11 (client timeout), C20 (close) and the negotiation half of C04.
"""
from harness.base import ClientWorld, F, S, Z
from ref import refkafka as rk


class Call(object):
    """One public API call on the client."""

    def __init__(self, idx, api, spec, step, time):
        self.idx = idx
        self.api = api
        self.spec = spec
        self.step = step
        self.time = time
        self.d = None
        self.fired = 0
        self.result = None
        self.t_fired = None
        self.step_fired = None
        self.raised = None
        self.timeout_bound = None
        self.after_close = False


def b(x):
    return None if x is None else x.encode("latin-1")


class ApiWorld(ClientWorld):
    """cfg: script of ops
         ["call", api, payloads, {kw}]   api in produce|fetch|offsets|offset_fetch|offset_commit|metadata|coordinator|
                                          join|heartbeat
         ["close"] | ["warm", [topics], [groups]] | ["cluster", kind, ...]
       payload specs: produce [topic, partition, [values]] / fetch [topic, partition, offset, max_bytes] /
                      offsets [topic, partition, time] / offset_fetch [topic, partition] /
                      offset_commit [topic, partition, offset]
    """

    PROP = "C07"

    def setup(self):
        self.PROP = self.cfg.get("prop", "C07")
        self.calls = []
        self.step = 0
        self.close_step = None
        self.close_d_fired = 0
        self.close_fire_step = None
        self.meta_view = {}  # topic -> {partition: leader}, from the latest Metadata answer delivered to the client
        self.meta_brokers = {}  # broker id -> (host, port) from Metadata / FindCoordinator answers
        self.coord_view = {}  # group -> broker id from the latest FindCoordinator answer
        self.wire = []  # (step, time, cid, broker, api, corr, body)
        self.attempt_log = []
        self.warm_done = False
        self.timer_marks = {}
        self._clock_seen = 0
        self.late_replies = 0
        self.attempts_at_close = None
        self.bytes_at_close = None
        self.resend_due = []
        self.meta_brokers_before = {}
        if self.cfg.get("warm"):
            self.warm(*self.cfg["warm"])

    # ------------------------------------------------------------------ deterministic prelude
    def warm(self, topics, groups=()):
        """Load metadata / coordinators / connections with the default schedule before exploration starts."""
        ds = []
        if topics:
            ds.append(self.client.load_metadata_for_topics(*topics))
        for g in groups:
            ds.append(self.client.load_coordinator_for_group(g))
        for d in ds:
            d.addErrback(lambda f: None)
        self.run_default(40)
        if self.cfg.get("warm_connect"):
            # open the broker connections too, through the public API: one ListOffsets call per broker that leads
            # a partition (brokers that only coordinate a group are reached by the coordinator warm-up below)
            only = self.cfg["warm_connect"] if isinstance(self.cfg["warm_connect"], list) else None
            from afkak.common import OffsetRequest
            done = set()
            for (t, p), leader in sorted(self.cluster.leader.items()):
                if leader in done or leader == -1 or (only is not None and leader not in only):
                    continue
                if topics and t not in topics:
                    continue
                done.add(leader)
                d = self.client.send_offset_request([OffsetRequest(t, p, -1, 1)])
                d.addErrback(lambda f: None)
            self.run_default(60)
            for g in groups:
                # a harmless request to the coordinator opens its connection
                bid = self.cluster.coordinator_of(g)
                if bid in done or (only is not None and bid not in only):
                    continue
                from afkak.common import OffsetFetchRequest
                some = sorted(self.cluster.leader)[0]
                d = self.client.send_offset_fetch_request(g, [OffsetFetchRequest(some[0], some[1])])
                d.addErrback(lambda f: None)
            self.run_default(60)
        self.trace = []
        self.wire = []
        self.step = 0
        self.warm_done = True

    def run_default(self, limit):
        n = 0
        while n < limit:
            io = [x for x in self.io_events() if x[1] == Z]
            if not io:
                break
            ClientWorld.apply(self, io[0][0])
            n += 1

    # ------------------------------------------------------------------ app ops
    def do_app(self, op):
        kind = op[0]
        if kind == "call":
            self.do_call(op[1], op[2], op[3] if len(op) > 3 and isinstance(op[3], dict) else {})
        elif kind == "calls":
            for sub in op[1]:
                self.do_call(sub[0], sub[1], sub[2] if len(sub) > 2 else {})
        elif kind == "close":
            self.do_close()
        elif kind == "cluster":
            self.do_cluster(op[1:])
        else:
            raise ValueError(op)

    def do_call(self, api, spec, kw):
        from afkak import common as C
        from afkak.kafkacodec import KafkaCodec, create_message
        c = Call(len(self.calls), api, spec, self.step, self.clock.seconds())
        c.journal_mark = len(self.net.journal)
        c.after_close = self.close_step is not None
        c.kw = dict(kw or {})
        self.calls.append(c)
        cl = self.client
        try:
            if api == "produce":
                payloads = [C.ProduceRequest(t, p, [create_message(b(v)) for v in vals]) for t, p, vals in spec]
                d = cl.send_produce_request(payloads, acks=kw.get("acks", 1), fail_on_error=kw.get("foe", True))
            elif api == "fetch":
                payloads = [C.FetchRequest(t, p, off, mb) for t, p, off, mb in spec]
                d = cl.send_fetch_request(payloads, max_wait_time=kw.get("max_wait", 100),
                                          fail_on_error=kw.get("foe", True))
            elif api == "offsets":
                d = cl.send_offset_request([C.OffsetRequest(t, p, tm, 1) for t, p, tm in spec],
                                           fail_on_error=kw.get("foe", True))
            elif api == "offset_fetch":
                d = cl.send_offset_fetch_request(kw.get("group", "g"), [C.OffsetFetchRequest(t, p) for t, p in spec],
                                                 fail_on_error=kw.get("foe", True))
            elif api == "offset_commit":
                d = cl.send_offset_commit_request(kw.get("group", "g"),
                                                  [C.OffsetCommitRequest(t, p, off, -1, None) for t, p, off in spec],
                                                  fail_on_error=kw.get("foe", True))
            elif api == "metadata":
                d = cl.load_metadata_for_topics(*spec)
            elif api == "coordinator":
                d = cl.load_coordinator_for_group(spec)
            elif api == "join":
                payload = C._JoinGroupRequest(spec, 30000, "", "consumer",
                                              [C._JoinGroupRequestProtocol("consumer", b"\x00\x00\x00\x00\x00\x00"
                                                                           b"\xff\xff\xff\xff")])
                d = cl._send_request_to_coordinator(spec, payload, encoder_fn=KafkaCodec.encode_join_group_request,
                                                    decode_fn=KafkaCodec.decode_join_group_response,
                                                    min_timeout=35.0)
                c.timeout_bound = max(35.0, cl.timeout)
            elif api == "heartbeat":
                payload = C._HeartbeatRequest(spec, 1, "m")
                d = cl._send_request_to_coordinator(spec, payload, encoder_fn=KafkaCodec.encode_heartbeat_request,
                                                    decode_fn=KafkaCodec.decode_heartbeat_response)
            else:
                raise ValueError(api)
        except Exception as e:
            c.raised = e
            c.fired = 1
            c.result = e
            c.t_fired = self.clock.seconds()
            c.step_fired = self.step
            self.judge_call(c)
            return
        c.d = d
        if c.timeout_bound is None:
            c.timeout_bound = cl.timeout
        if api in ("metadata", "coordinator"):
            # broker-agnostic: one bounded attempt per known broker, then per bootstrap host
            c.timeout_bound = 1e9  # broker-agnostic: walks over brokers and bootstrap hosts

        def fired(res, c=c):
            c.fired += 1
            c.result = res
            c.t_fired = self.clock.seconds()
            c.step_fired = self.step
            if c.fired > 1:
                self.viol("api", "call-deferred-fired-twice", "call %d (%s) fired %d times" % (c.idx, c.api, c.fired))
            self.judge_call(c)
            from twisted.python.failure import Failure
            if isinstance(res, Failure) and kw.get("again_on_failure") and self.close_step is None:
                # the application retries at once, from inside the errback of the failed call
                self.do_call(api, spec, dict(kw, again_on_failure=kw["again_on_failure"] - 1))
            return None
        d.addBoth(fired)

    def do_close(self):
        pend = [c for c in self.calls if not c.fired]
        self.close_step = self.step
        self.attempts_at_close = len(self.net.attempts)
        self.bytes_at_close = sum(c.c2b_total for c in self.net.conns)
        d = self.client.close()

        def fired(res):
            self.close_d_fired += 1
            self.close_fire_step = self.step
            self.close_fire_open = [c.cid for c in self.net.open_conns()]
            self.close_fire_attempts = [a.aid for a in self.net.pending_attempts()]
            return None
        d.addBoth(fired)
        self.pending_at_close = pend
        self.boot_at_close = self.bootstrap_activity()
        if self.PROP == "C20":
            for c in pend:
                if not c.fired:
                    self.viol("close", "pending-operation-survives-close:%s%s" % (
                        c.api, ":bootstrap-phase" if self.boot_at_close else ""),
                              "call %d (%s) was in progress when close() was called and is still pending after close() "
                              "returned" % (c.idx, c.api))

    def is_bootstrap_factory(self, factory):
        return type(factory).__name__ != "_KafkaBrokerClient"

    def bootstrap_activity(self):
        """Ephemeral bootstrap connections or attempts currently in progress."""
        act = [("attempt", a.aid) for a in self.net.pending_attempts() if self.is_bootstrap_factory(a.factory)]
        act += [("conn", c.cid) for c in self.net.open_conns() if type(c.proto).__name__ == "KafkaBootstrapProtocol"]
        return act

    def do_cluster(self, ev):
        kind = ev[0]
        cl = self.cluster
        if kind == "move":
            cl.move_leader((ev[1], ev[2]), ev[3])
        elif kind == "down":
            cl.brokers[ev[1]]["up"] = False
        elif kind == "up":
            cl.brokers[ev[1]]["up"] = True
        elif kind == "readdress":
            cl.brokers[ev[1]]["host"] = ev[2]
            cl.brokers[ev[1]]["port"] = ev[3]
        elif kind == "remove_broker":
            cl.brokers.pop(ev[1], None)
        elif kind == "add_broker":
            cl.add_broker(ev[1])
        elif kind == "topic_error":
            if ev[2] is None:
                cl.topic_error.pop(ev[1], None)
            else:
                cl.topic_error[ev[1]] = ev[2]
        elif kind == "add_partition":
            if (ev[1], ev[2]) not in cl.logs:
                cl.add_partition(ev[1], ev[2], ev[3])
        elif kind == "remove_partition":
            cl.logs.pop((ev[1], ev[2]), None)
            cl.leader.pop((ev[1], ev[2]), None)
        elif kind == "remove_topic":
            for tp in [tp for tp in cl.logs if tp[0] == ev[1]]:
                cl.logs.pop(tp)
                cl.leader.pop(tp, None)
        elif kind == "coordinator":
            cl.coordinator[ev[1]] = ev[2]
        elif kind == "drop_conns":
            # the broker restarts (or an idle connection is reaped): its connections go away, it keeps listening
            from twisted.internet import error
            for c in list(self.net.open_conns()):
                if c.server is not None and c.server.broker_id == ev[1]:
                    c.close(error.ConnectionLost("broker %d restarted" % ev[1]))
        else:
            raise ValueError(ev)

    # ------------------------------------------------------------------ observation
    def on_frame(self, conn, req):
        p = req.parsed
        if p is None:
            return
        self.wire.append((self.step, self.clock.seconds(), conn.cid, req.broker, p["api_key"],
                          p["correlation_id"], p["body"], req))
        if self.close_step is not None and self.PROP == "C20":
            boot = type(conn.proto).__name__ == "KafkaBootstrapProtocol" and bool(self.boot_at_close)
            self.viol("close", "bytes-written-after-close:%s%s" % (rk.API_NAMES.get(p["api_key"], p["api_key"]),
                                                                  ":bootstrap-connection" if boot else ""),
                      "a %s request was written to broker %s at step %d, after close() at step %d" % (
                          rk.API_NAMES.get(p["api_key"]), req.broker, self.step, self.close_step))

    def on_event(self, label):
        # metadata the client has received
        for r in self.cluster.journal:
            if r.answered and r.answer is not None and not getattr(r, "_seen_cl", False) and r.parsed:
                r._seen_cl = True
                api = r.parsed["api_key"]
                if api == rk.METADATA:
                    self.note_metadata(r)
                elif api == rk.FIND_COORDINATOR and r.answer["error"] == 0:
                    self.coord_view[r.parsed["body"]["group"]] = r.answer["node_id"]
                    self.meta_brokers[r.answer["node_id"]] = (r.answer["host"], r.answer["port"])
        if self.PROP == "C08":
            n0 = getattr(self, "_att_seen", 0)
            for a in self.net.attempts[n0:]:
                if type(a.factory).__name__ == "_KafkaBrokerClient":
                    bid = a.factory.node_id
                    want = self.meta_brokers_before.get(bid)
                    if want is not None and (a.host, a.port) != tuple(want):
                        self.viol("metadata-view", "connection-made-to-stale-address",
                                  "broker %d: connection attempted to %s:%s, the latest answer said %s:%s" % (
                                      bid, a.host, a.port, want[0], want[1]))
            self._att_seen = len(self.net.attempts)
        self.meta_brokers_before = dict(self.meta_brokers)
        if self.close_step is not None and self.PROP == "C20":
            self.check_closed(label)
        if self.PROP == "C11":
            self.check_timers(label)
        if self.PROP == "C08":
            self.check_metadata_view(label)
        if label.split(":")[0] in ("refuse", "drop", "silent", "bclose", "dnsfail") or "err=" in label:
            self.reacted = True
        if label.split(":")[0] in ("refuse", "drop", "bclose", "dnsfail") or "err=" in label:
            self.faults_other_than_delay = True
        self.step += 1

    def note_metadata(self, r):
        body = r.answer
        asked = r.parsed["body"]["topics"]
        self.last_meta = (self.step, asked, body)
        for b_ in body["brokers"]:
            self.meta_brokers[b_["node_id"]] = (b_["host"], b_["port"])
        if not asked:
            self.full_refresh_brokers = set(b_["node_id"] for b_ in body["brokers"]) if body["brokers"] else None
        for t in body["topics"]:
            self.meta_view[t["topic"]] = {"error": t["error"],
                                          "parts": {p["partition"]: p["leader"] for p in t["partitions"]}}

    # ------------------------------------------------------------------ oracles: filled per property
    def judge_call(self, c):
        from twisted.python.failure import Failure
        if self.PROP in ("C07", "C11") and self.deviations_taken == 0 and isinstance(c.result, (Failure, Exception)) \
                and not self.cfg.get("expect_failure") and c.api in ("produce", "fetch", "offsets", "offset_fetch",
                                                                     "offset_commit", "metadata", "coordinator"):
            self.viol("healthy", "call-fails-on-a-healthy-cluster:%s" % c.api,
                      "call %d (%s) failed with %r although every broker is reachable and answers correctly and "
                      "promptly (requests on the wire for it: %d)" % (
                          c.idx, c.api, getattr(c.result, "value", c.result), len(self.replies_delivered_to(c))))
        if self.PROP == "C07":
            self.judge_routing(c)
        if self.PROP == "C20" and c.after_close:
            from twisted.python.failure import Failure
            ok = isinstance(c.result, (Failure, Exception)) and c.step_fired == c.step
            if not ok:
                self.viol("close", "operation-after-close-not-failed-at-once:%s%s" % (
                    c.api, ":bootstrap-phase" if getattr(self, "boot_at_close", None) else ""),
                          "call %d (%s) issued after close(): fired=%r at step %r (issued at %d) result=%r" % (
                              c.idx, c.api, c.fired, c.step_fired, c.step, c.result))
        if self.PROP == "C20" and self.close_step is not None and not c.after_close:
            from twisted.python.failure import Failure
            if not isinstance(c.result, (Failure, Exception)):
                if c.step_fired is not None and c.step_fired > self.close_step:
                    self.viol("close", "pending-operation-succeeds-after-close:%s%s" % (
                        c.api, ":bootstrap-phase" if self.boot_at_close else ""),
                              "call %d (%s) completed successfully at step %d, after close() at step %d" % (
                                  c.idx, c.api, c.step_fired, self.close_step))

    # ---- C07
    def requests_of_call(self, c):
        """Wire requests issued between the call and its completion that carry its API (single call in flight)."""
        key = {"produce": rk.PRODUCE, "fetch": rk.FETCH, "offsets": rk.LIST_OFFSETS,
               "offset_fetch": rk.OFFSET_FETCH, "offset_commit": rk.OFFSET_COMMIT}[c.api]
        end = c.step_fired if c.step_fired is not None else self.step
        return [w for w in self.wire if w[4] == key and c.step <= w[0] <= end]

    def judge_routing(self, c):
        from afkak.common import (FailedPayloadsError, KafkaUnavailableError, LeaderUnavailableError,
                                  PartitionUnavailableError)
        from twisted.python.failure import Failure
        if c.api in ("metadata", "coordinator"):
            self.judge_agnostic(c)
            return
        if c.api not in ("produce", "fetch", "offsets", "offset_fetch", "offset_commit"):
            return
        group = c.api in ("offset_fetch", "offset_commit")
        keys = [(s[0], s[1]) for s in c.spec]
        reqs = self.requests_of_call(c)
        # distinct first-transmission requests (a broker client may re-send after a reconnect: same correlation id)
        first = {}
        for w in reqs:
            first.setdefault((w[3], w[5]), w)
        reqs1 = list(first.values())
        # 1. each payload went to the broker the latest metadata names (coordinator for group requests)
        sent = {}
        for w in reqs1:
            body = w[6]
            if body is None:
                continue
            for t in body["topics"]:
                for p in t["partitions"]:
                    sent.setdefault((t["topic"], p["partition"]), []).append(w[3])
        per_broker_calls = {}
        for w in reqs1:
            per_broker_calls[w[3]] = per_broker_calls.get(w[3], 0) + 1
        for bid, n in per_broker_calls.items():
            if n > 1:
                self.viol("routing", "more-than-one-request-per-broker-per-call",
                          "call %d (%s) sent %d requests to broker %d" % (c.idx, c.api, n, bid))
        for k in keys:
            brokers = sent.get(k, [])
            if group:
                want = self.coord_view.get("g")
            else:
                want = self.meta_view.get(k[0], {}).get("parts", {}).get(k[1])
            if brokers:
                if len(brokers) > 1:
                    self.viol("routing", "payload-sent-to-several-brokers",
                              "payload %r of call %d travelled to brokers %r" % (k, c.idx, brokers))
                if want is None and not group and k[0] in self.meta_view and not self.reacted:
                    self.viol("routing", "payload-sent-although-current-metadata-names-no-leader:%s" % c.api,
                              "payload %r of call %d (%s) was sent to broker %r; the latest metadata answer for the "
                              "topic was %r" % (k, c.idx, c.api, brokers[0], self.meta_view[k[0]]))
                if want is not None and brokers[0] != want:
                    self.viol("routing", "payload-sent-to-wrong-broker:%s" % c.api,
                              "payload %r of call %d (%s) was sent to broker %r; the latest metadata names %r" % (
                                  k, c.idx, c.api, brokers[0], want))
        extra = [k for k in sent if k not in keys]
        if extra:
            self.viol("routing", "request-carries-foreign-payload",
                      "call %d (%s) put %r on the wire, payloads supplied %r" % (c.idx, c.api, extra, keys))
        res = c.result
        if c.api == "produce" and getattr(c, "kw", {}).get("acks", 1) == 0:
            # no acknowledgements: success is the empty result, and means that every payload was handed to a
            # connection; a FailedPayloadsError names exactly the payloads that were not
            if isinstance(res, Failure):
                if res.check(FailedPayloadsError):
                    failed = [(p.topic, p.partition) for p, _f in res.value.failed_payloads]
                    unsent = [k for k in keys if k not in sent]
                    if sorted(failed) != sorted(unsent) or list(res.value.responses):
                        self.viol("partial-failure", "acks0-failed-payloads-are-not-the-unsent-ones",
                                  "call %d (produce, acks=0): payloads %r; written to a connection %r; failed "
                                  "payloads %r, responses %r" % (c.idx, keys, sorted(sent), failed,
                                                                 list(res.value.responses)))
                return
            if isinstance(res, Exception):
                return
            for k in keys:
                if k not in sent:
                    self.viol("routing", "payload-never-sent-but-call-succeeded",
                              "payload %r of call %d (acks=0) never reached a connection yet the call succeeded "
                              "with %r" % (k, c.idx, res))
            return
        if isinstance(res, Failure):
            if res.check(FailedPayloadsError):
                resp = [(r.topic, r.partition) for r in res.value.responses]
                failed = [(p.topic, p.partition) for p, _f in res.value.failed_payloads]
                if sorted(resp + failed) != sorted(keys) or len(set(resp + failed)) != len(resp + failed):
                    self.viol("partial-failure", "responses-and-failed-payloads-do-not-partition-input",
                              "call %d (%s): payloads %r; responses %r + failed %r" % (c.idx, c.api, keys, resp,
                                                                                        failed))
                if resp != [k for k in keys if k in resp]:
                    self.viol("partial-failure", "responses-out-of-payload-order",
                              "call %d (%s): payload order %r, responses %r" % (c.idx, c.api, keys, resp))
                # failed payloads are the ones whose broker did not answer
                answered = set()
                for w in reqs1:
                    rq = w[7]
                    if rq.answered and rq.answer is not None and not rq.injected:
                        for t in w[6]["topics"]:
                            for p in t["partitions"]:
                                answered.add((t["topic"], p["partition"]))
            return
        if isinstance(res, Exception):
            return
        # success: responses in payload order, one per payload
        if c.api == "produce" and c.spec and res == [] and False:
            return
        got = [(r.topic, r.partition) for r in (res or [])]
        if got != keys:
            self.viol("order", "responses-not-in-payload-order:%s" % c.api,
                      "call %d (%s): payloads %r, responses %r" % (c.idx, c.api, keys, got))
        for k in keys:
            if k not in sent:
                self.viol("routing", "payload-never-sent-but-call-succeeded",
                          "payload %r of call %d never reached a broker yet the call succeeded" % (k, c.idx))

    def judge_agnostic(self, c):
        from afkak.common import KafkaUnavailableError, CoordinatorNotAvailable
        from twisted.python.failure import Failure
        res = c.result
        # connected brokers first: with a broker connection up, the first thing the call does is write to one
        conn_at = self.connected_ids_at_call.get(c.idx, [])
        if conn_at:
            for j in self.net.journal[c.journal_mark:]:
                if j[0] == "attempt":
                    self.viol("agnostic", "unconnected-broker-tried-before-connected-one",
                              "call %d (%s): a new connection to %s:%s was attempted first although connections to "
                              "brokers %r were up" % (c.idx, c.api, j[2], j[3], conn_at))
                    break
                if j[0] == "write":
                    break
        if not isinstance(res, Failure):
            return
        if not res.check(KafkaUnavailableError, CoordinatorNotAvailable):
            return
        key = rk.METADATA if c.api == "metadata" else rk.FIND_COORDINATOR
        end = c.step_fired
        if res.check(CoordinatorNotAvailable) and any(
                w[4] == key and c.step <= w[0] <= end and w[7].answered and w[7].answer is not None
                for w in self.wire):
            return  # a broker answered the lookup with an error code: not a matter of reaching brokers
        tried_brokers = []
        for w in self.wire:
            if w[4] == key and c.step <= w[0] <= end:
                tried_brokers.append((w[2], w[3]))
        # every known broker must have been tried (an attempt to connect counts: the broker may be unreachable)
        attempts = [j for j in self.net.journal if j[0] == "attempt" and j[4] >= c.time]
        hosts_tried = [(j[2], j[3]) for j in attempts]
        known = dict(self.known_brokers_at_call.get(c.idx, {}))
        for bid, hp in known.items():
            wrote = any(w[3] == bid for w in self.wire if w[4] == key and c.step <= w[0] <= end)
            if not wrote and hp not in hosts_tried:
                self.viol("agnostic", "known-broker-not-tried-before-unavailable",
                          "call %d (%s) failed with %s but broker %d at %r was neither sent the request nor "
                          "connected to" % (c.idx, c.api, res.type.__name__, bid, hp))
        boot = [(b_["host"], b_["port"]) for _i, b_ in sorted(self.cluster.brokers.items())] \
            if self.cfg.get("hosts") is None else []
        # bootstrap attempts are the connection attempts made after the broker clients were exhausted
        for hp in boot:
            n_boot = sum(1 for x in hosts_tried if x == tuple(hp))
            need = 1 + (1 if tuple(hp) in known.values() and not self.connected_at_call.get(c.idx, {}).get(
                tuple(hp)) else 0)
            if n_boot < 1:
                self.viol("agnostic", "bootstrap-host-not-tried-before-unavailable",
                          "call %d (%s) failed with %s but bootstrap host %r was never tried" % (
                              c.idx, c.api, res.type.__name__, hp))
        # connected brokers first
        order = []
        for w in self.wire:
            if w[4] == key and c.step <= w[0] <= end and w[3] not in order:
                order.append(w[3])
        conn_at = self.connected_ids_at_call.get(c.idx, [])
        if conn_at:
            first_unconnected = [i for i, bid in enumerate(order) if bid not in conn_at]
            last_connected = [i for i, bid in enumerate(order) if bid in conn_at]
            if first_unconnected and last_connected and min(first_unconnected) < max(last_connected):
                self.viol("agnostic", "unconnected-broker-tried-before-connected-one",
                          "call %d (%s): brokers were tried in order %r; connected at the time of the call: %r" % (
                              c.idx, c.api, order, conn_at))

    known_brokers_at_call = {}
    connected_at_call = {}
    connected_ids_at_call = {}

    # ------------------------------------------------------------------ C20
    def check_closed(self, label):
        if len(self.net.attempts) > self.attempts_at_close and self.PROP == "C20":
            a = self.net.attempts[self.attempts_at_close]
            self.viol("close", "connection-attempt-after-close%s" % (
                ":bootstrap-connection" if self.is_bootstrap_factory(a.factory) and self.boot_at_close else ""),
                      "a connection to %s:%s was attempted at step %d, after close() at step %d" % (
                          a.host, a.port, self.step, self.close_step))
            self.attempts_at_close = len(self.net.attempts)
        if self.close_d_fired > 1:
            self.viol("close", "close-deferred-fired-twice", "close() Deferred fired %d times" % self.close_d_fired)
        if self.close_d_fired and (self.close_fire_open or self.close_fire_attempts):
            boot_only = all(type(self.net.conns[cid].proto).__name__ == "KafkaBootstrapProtocol"
                            for cid in self.close_fire_open) and all(
                self.is_bootstrap_factory(self.net.attempts[aid].factory) for aid in self.close_fire_attempts) \
                and bool(self.boot_at_close)
            self.viol("close", "close-deferred-fired-before-connections-gone%s" % (
                ":bootstrap-connection" if boot_only else ""),
                      "close() Deferred fired at step %d while connections %r / attempts %r were still there" % (
                          self.close_fire_step, self.close_fire_open, self.close_fire_attempts))
        if not self.net.open_conns() and not self.net.pending_attempts() and not self.close_d_fired:
            self.viol("close", "close-deferred-not-fired-when-last-connection-gone",
                      "every connection is gone but the close() Deferred has not fired")
        cl = self.client
        if cl.topic_partitions or cl.topics_to_brokers or cl.topic_errors or cl.consumer_group_to_brokers:
            self.viol("close", "metadata-not-cleared-after-close",
                      "after close(): topic_partitions=%r topics_to_brokers=%r errors=%r groups=%r" % (
                          dict(cl.topic_partitions), dict(cl.topics_to_brokers), dict(cl.topic_errors),
                          cl.consumer_group_to_brokers))

    # ------------------------------------------------------------------ C11
    def mrtb_timers(self):
        return [c for c in self.clock.pending() if "_mrtb_timeout" in (getattr(c.func, "__qualname__", "") or "")]

    def replies_delivered_to(self, c):
        """Correct (non-injected) answers delivered to the client for the requests of call c, with their times."""
        key = {"produce": rk.PRODUCE, "fetch": rk.FETCH, "offsets": rk.LIST_OFFSETS, "offset_fetch": rk.OFFSET_FETCH,
               "offset_commit": rk.OFFSET_COMMIT, "metadata": rk.METADATA, "coordinator": rk.FIND_COORDINATOR,
               "join": rk.JOIN_GROUP, "heartbeat": rk.HEARTBEAT}[c.api]
        return [w for w in self.wire if w[4] == key and w[0] >= c.step]

    def check_timers(self, label):
        from afkak.common import FailedPayloadsError, RequestTimedOutError
        from twisted.python.failure import Failure
        now = self.clock.seconds()
        for c in self.calls:
            bound = c.timeout_bound
            if c.api in ("metadata", "coordinator"):
                # broker-agnostic calls walk over brokers and bootstrap hosts: the per-request bound does not
                # apply to the call as a whole (they must still resolve: see finish)
                bound = 1e9
            if not c.fired and now > c.time + bound + 1e-9:
                self.viol("timeout", "call-unresolved-after-timeout:%s" % c.api,
                          "call %d (%s) issued at t=%.3f is still pending at t=%.3f, bound %.1f s" % (
                              c.idx, c.api, c.time, now, bound))
            if c.fired and not getattr(c, "_judged11", False):
                c._judged11 = True
                dt = c.t_fired - c.time
                if dt > bound + 1e-9:
                    self.viol("timeout", "call-resolved-later-than-timeout:%s" % c.api,
                              "call %d (%s) resolved after %.3f s, bound %.1f s" % (c.idx, c.api, dt, bound))
                res = c.result
                timed_out = False
                if isinstance(res, Failure):
                    if res.check(RequestTimedOutError):
                        timed_out = True
                    elif res.check(FailedPayloadsError):
                        timed_out = any(f.check(RequestTimedOutError) for _p, f in res.value.failed_payloads)
                    elif "timed out" in str(res.value).lower() or "Unavailable" in res.type.__name__:
                        timed_out = True
                if timed_out and dt < bound - 1e-9 and c.api not in ("metadata", "coordinator"):
                    self.viol("timeout", "timed-out-before-the-timeout:%s" % c.api,
                              "call %d (%s) failed with a timeout after only %.3f s, bound %.1f s" % (
                                  c.idx, c.api, dt, bound))
                from afkak.common import BrokerResponseError
                answered_with_error = isinstance(res, Failure) and res.check(BrokerResponseError) and not timed_out
                if not timed_out and isinstance(res, Failure) and not self.faults_other_than_delay and \
                        not answered_with_error:
                    self.viol("timeout", "call-fails-without-timeout:%s:%s" % (c.api, res.type.__name__),
                              "call %d (%s) failed with %r although its broker only delayed the answer" % (
                                  c.idx, c.api, res.value))
        # the timer is released as soon as the reply arrives first
        if all(c.fired for c in self.calls) and self.calls:
            t = self.mrtb_timers()
            if t:
                self.viol("timeout", "timeout-timer-left-armed-after-completion",
                          "every call has completed but %d request timeout timer(s) are still armed" % len(t))
        # a late reply disturbs nothing: a fired call never fires again (checked in do_call) and keeps its result
        for c in self.calls:
            if c.fired:
                snap = getattr(c, "_snap", None)
                cur = (c.fired, repr(c.result)[:200])
                if snap is None:
                    c._snap = cur
                elif snap != cur:
                    self.viol("timeout", "late-reply-changes-a-completed-call",
                              "call %d (%s) changed from %r to %r" % (c.idx, c.api, snap, cur))
        # disconnect-on-timeout: the silent connection is dropped and the rest is re-sent on a new one
        if self.cfg.get("disconnect_on_timeout") and label == "timer" and self.timer_was_mrtb:
            timed = [c for c in self.calls if c.fired and c.step_fired == self.step]
            for conn in self.net.open_conns():
                if type(conn.proto).__name__ != "KafkaProtocol" or conn.server is None:
                    continue
                mine = [w for w in self.wire if w[2] == conn.cid and not w[7].answered]
                hit = [w for w in mine if any(self.call_of(w) is c for c in timed)]
                if hit and not conn.client_closing:
                    self.viol("disconnect-on-timeout", "silent-connection-not-dropped-on-timeout",
                              "a request on connection %d timed out with disconnect_on_timeout enabled but the "
                              "connection was not closed" % conn.cid)
                if hit:
                    rest = [w for w in mine if self.call_of(w) is not None and not self.call_of(w).fired]
                    self.resend_due.append((conn.cid, [w[5] for w in rest], self.step))

    timer_was_mrtb = False
    resend_due = ()

    def call_of(self, w):
        key_api = {rk.PRODUCE: "produce", rk.FETCH: "fetch", rk.LIST_OFFSETS: "offsets",
                   rk.OFFSET_FETCH: "offset_fetch", rk.OFFSET_COMMIT: "offset_commit", rk.METADATA: "metadata",
                   rk.FIND_COORDINATOR: "coordinator", rk.JOIN_GROUP: "join", rk.HEARTBEAT: "heartbeat"}
        api = key_api.get(w[4])
        cands = [c for c in self.calls if c.api == api and c.step <= w[0]]
        return cands[-1] if cands else None

    def check_resends(self):
        for cid, corrs, step in self.resend_due:
            later = {}
            for w in self.wire:
                if w[2] != cid and w[0] >= step and w[5] in corrs:
                    later.setdefault(w[2], []).append(w[5])
            for corr in corrs:
                if not any(corr in v for v in later.values()):
                    c = None
                    answered_on_old = False
                    for w in self.wire:
                        if w[5] == corr:
                            c = self.call_of(w)
                            if w[2] == cid and w[7].answered and not w[7].injected:
                                answered_on_old = True  # the reply still made it before the connection went
                    if answered_on_old:
                        continue
                    from twisted.python.failure import Failure
                    if c is not None and c.fired and isinstance(c.result, (Failure, Exception)):
                        continue  # it timed out (or failed) on its own before a new connection was up
                    self.viol("disconnect-on-timeout", "unanswered-request-not-resent-after-disconnect",
                              "request with correlation id %d was unanswered on connection %d when it was dropped on "
                              "timeout, and was never re-sent on a new connection" % (corr, cid))
            for ncid, seq in later.items():
                if len(set(seq)) != len(seq):
                    self.viol("disconnect-on-timeout", "request-resent-twice-on-one-connection",
                              "connection %d carries %r" % (ncid, seq))
                if seq != [x for x in corrs if x in seq]:
                    self.viol("disconnect-on-timeout", "resend-order-changed",
                              "requests %r were re-sent on connection %d as %r" % (corrs, ncid, seq))

    faults_other_than_delay = False

    def public_view(self, topics):
        """What the client exposes about the given topics (public attributes / methods only)."""
        from afkak.common import TopicAndPartition
        cl = self.client
        out = {}
        for t in topics:
            parts = list(cl.topic_partitions.get(t, []))
            keys = sorted(k.partition for k in cl.topics_to_brokers if k.topic == t)
            leaders = {}
            for k, bm in cl.topics_to_brokers.items():
                if k.topic == t:
                    leaders[k.partition] = None if bm is None else (bm.node_id, bm.host, bm.port)
            fr = {p: cl.partition_fully_replicated(TopicAndPartition(t, p)) for p in set(parts) | set(keys)}
            out[t] = {"partitions": parts, "routed": keys, "leaders": leaders,
                      "error": cl.metadata_error_for_topic(t), "has": cl.has_metadata_for_topic(t), "replicated": fr}
        return out

    def check_metadata_view(self, label):
        from afkak.common import TopicAndPartition
        lm = getattr(self, "last_meta", None)
        if lm is None or lm[0] != self.step or self.close_step is not None:
            # no metadata answer in this step: remember the view so that "untouched" can be judged next time
            self._view_before = self.public_view(self.all_topics_seen())
            return
        _st, asked, body = lm
        covered = [t["topic"] for t in body["topics"]]
        brokers = {b_["node_id"]: (b_["host"], b_["port"]) for b_ in body["brokers"]}
        view = self.public_view(covered)
        for t in body["topics"]:
            name = t["topic"]
            v = view[name]
            want_parts = sorted(p["partition"] for p in t["partitions"])
            if v["partitions"] != want_parts:
                self.viol("metadata-view", "topic-partitions-differ-from-response",
                          "topic %r: client lists partitions %r, the response said %r" % (name, v["partitions"],
                                                                                           want_parts))
            if v["routed"] != want_parts:
                kind = "stale-partition-kept" if set(v["routed"]) - set(want_parts) else "partition-missing"
                self.viol("metadata-view", "routing-table-%s" % kind,
                          "topic %r: routing table has partitions %r, the response said %r" % (name, v["routed"],
                                                                                                want_parts))
            if v["error"] != t["error"]:
                self.viol("metadata-view", "topic-error-differs-from-response",
                          "topic %r: metadata_error_for_topic=%r, the response said %r" % (name, v["error"],
                                                                                             t["error"]))
            for p in t["partitions"]:
                want = None if p["leader"] == -1 else (p["leader"],) + brokers.get(p["leader"], (None, None))
                got = v["leaders"].get(p["partition"], "missing")
                if got != want:
                    self.viol("metadata-view", "leader-differs-from-response",
                              "%s/%d: client routes to %r, the response said %r" % (name, p["partition"], got, want))
                wr = len(p["replicas"]) == len(p["isr"])
                if v["replicated"].get(p["partition"]) != wr:
                    self.viol("metadata-view", "replication-state-differs-from-response",
                              "%s/%d: partition_fully_replicated=%r, the response implies %r" % (
                                  name, p["partition"], v["replicated"].get(p["partition"]), wr))
            # partitions that vanished from the response must not look alive
            for p in set(getattr(self, "_parts_ever", {}).get(name, ())) - set(want_parts):
                if self.client.partition_fully_replicated(TopicAndPartition(name, p)):
                    self.viol("metadata-view", "vanished-partition-still-reported-replicated",
                              "%s/%d is not in the response any more but partition_fully_replicated() is True" % (
                                  name, p))
            self.__dict__.setdefault("_parts_ever", {}).setdefault(name, set()).update(want_parts)
        # other topics untouched
        before = getattr(self, "_view_before", {})
        after = self.public_view([t for t in before if t not in covered])
        for t, v in after.items():
            if before[t] != v:
                self.viol("metadata-view", "untouched-topic-changed",
                          "topic %r was not in the response yet its view changed from %r to %r" % (t, before[t], v))
        # full refresh: connections to brokers missing from it are closed
        if not asked and body["brokers"]:
            for c in self.net.open_conns():
                if c.server is None or type(c.proto).__name__ != "KafkaProtocol":
                    continue
                if c.server.broker_id not in brokers and not c.client_closing:
                    self.viol("metadata-view", "connection-to-removed-broker-left-open",
                              "a full refresh listed brokers %r; the connection to broker %d is still open and not "
                              "closing" % (sorted(brokers), c.server.broker_id))
        self._view_before = self.public_view(self.all_topics_seen())

    def all_topics_seen(self):
        ts = set(self.meta_view)
        ts.update(self.cfg.get("watch_topics", []))
        return sorted(ts)

    def check_addresses(self):
        """Connections to a broker are made to the address of the latest answer that described it."""
        for j in self.net.journal:
            pass

    def app_guard(self, op):
        # by default the next call is issued once the previous ones have completed (oracles attribute wire requests
        # to "the" call in flight); concurrency is requested explicitly with a "calls" op or by early injection
        if op[0] == "call" and any(not c.fired for c in self.calls):
            return False
        return True

    # ------------------------------------------------------------------ explorer protocol
    def quiescent(self):
        if any(not c.fired for c in self.calls):
            return False
        return True

    def finish(self, horizon):
        if self.PROP == "C11":
            self.check_resends()
        if self.PROP == "C20" and self.close_step is not None:
            for c in self.net.open_conns():
                self.viol("close", "connection-left-open-after-close",
                          "connection %d to %s is still open at the end of the run" % (c.cid, c.host))
            if not self.close_d_fired:
                self.viol("close", "close-deferred-never-fires", "the close() Deferred never fired")
        for c in self.calls:
            if not c.fired and self.PROP in ("C07", "C11", "C20"):
                self.viol("api", "call-never-resolves%s:%s" % ("-horizon" if horizon else "", c.api),
                          "call %d (%s %r) never resolved (tail %r)" % (c.idx, c.api, c.spec, self.trace[-8:]))

    def outcome(self):
        return tuple((c.api, c.fired, type(getattr(c.result, "value", c.result)).__name__,
                      None if c.t_fired is None else round(c.t_fired - c.time, 6)) for c in self.calls) + (
            len(self.net.conns), len(self.wire), self.close_d_fired)

    def nontrivial(self):
        return self.reacted or self.close_step is not None

    def apply(self, label):
        if label.startswith("app:"):
            op = self.script[self.script_pos]
            if op[0] == "call":
                idx = len(self.calls)
                # what the client has been told about the cluster, and which broker connections are up
                self.known_brokers_at_call = dict(self.known_brokers_at_call)
                self.known_brokers_at_call[idx] = dict(self.meta_brokers)
                self.connected_ids_at_call = dict(self.connected_ids_at_call)
                self.connected_ids_at_call[idx] = sorted(set(
                    c.server.broker_id for c in self.net.open_conns()
                    if c.server is not None and type(c.proto).__name__ == "KafkaProtocol" and not c.client_closing))
        self.timer_was_mrtb = False
        if label == "timer" and self.clock.pending():
            nxt = self.clock.pending()[0]
            self.timer_was_mrtb = "_mrtb_timeout" in (getattr(nxt.func, "__qualname__", "") or "")
        ClientWorld.apply(self, label)
