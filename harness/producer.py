"""H-PR: real Producer + real KafkaClient + SimCluster.  Serves C01 (truthful,
exactly-once acknowledgements), C09 (per-partition order, retry discipline) and
C19 (batching thresholds, cancellation, stop).
"""
from afkak.common import FailedPayloadsError
from harness.base import ClientWorld, F, S, Z
from ref import refkafka as rk

FACTOR = 1.20205


class Send(object):
    __slots__ = ("i", "topic", "key", "msgs", "d", "fired", "result", "cancelled", "t_send", "t_fired",
                 "first_wire_step", "wire_steps", "acked", "step_fired", "raised", "call_steps", "cancel_step")

    def __init__(self, i, topic, key, msgs):
        self.i = i
        self.topic = topic
        self.key = key
        self.msgs = msgs
        self.d = None
        self.fired = 0
        self.result = None
        self.cancelled = False
        self.t_send = None
        self.t_fired = None
        self.first_wire_step = None
        self.wire_steps = []
        self.acked = []  # (step, topic, partition, base) of error-0 acknowledgements delivered to the client
        self.step_fired = None
        self.raised = None
        self.call_steps = []
        self.cancel_step = None


class ProducerWorld(ClientWorld):
    """cfg: producer={acks, batch_send, batch_every_n/b/t, codec, max_req_attempts, retry_interval, partitioner},
    script ops: ["send", topic, key|None, [values]], ["cancel", i], ["stop"], ["wait", seconds]"""

    PROP = "C01"

    def setup(self):
        from afkak.partitioner import HashedPartitioner, RoundRobinPartitioner
        from afkak.producer import Producer
        self.PROP = self.cfg.get("prop", "C01")
        pc = dict(self.cfg.get("producer", {}))
        part = pc.pop("partitioner", "rr")
        self.acks = pc.get("acks", 1)
        kwargs = {"req_acks": self.acks, "max_req_attempts": pc.get("max_req_attempts", 3),
                  "retry_interval": pc.get("retry_interval", 0.25), "codec": pc.get("codec"),
                  "partitioner_class": HashedPartitioner if part == "hashed" else RoundRobinPartitioner}
        if pc.get("batch_send"):
            kwargs.update(batch_send=True, batch_every_n=pc.get("batch_every_n", 0),
                          batch_every_b=pc.get("batch_every_b", 0), batch_every_t=pc.get("batch_every_t", 0))
        self.max_attempts = kwargs["max_req_attempts"]
        self.retry_interval = kwargs["retry_interval"]
        self.producer = Producer(self.client, **kwargs)
        self.calls = []  # (step, time, [send indexes], {(topic, partition): [values]}) per client.send_produce_request
        orig_spr = self.client.send_produce_request

        def spr(payloads=None, *a, **kw):
            idx_by_tp = self.note_call(payloads or [])
            c08 = None
            if self.PROP == "C08":
                st = self.__dict__.setdefault("_c08", {"stale": {}, "last_meta": -1, "n": 0})
                tps = [(p_.topic, p_.partition) for p_ in payloads or []]
                c08 = (len(self.produce_reqs), {tp: st["stale"][tp] for tp in tps if tp in st["stale"]}, tps)
            d = orig_spr(payloads, *a, **kw)
            if c08 is not None:
                d.addBoth(self.c08_call_done, c08)

            def seen(res):
                # what the client reports back to the producer for this attempt (pass-through observer)
                from twisted.python.failure import Failure
                self._last_call_failed = isinstance(res, Failure) or any(
                    getattr(r, "error", 0) for r in (res or []))
                resps = res
                if isinstance(res, Failure):
                    resps = res.value.args[0] if res.check(FailedPayloadsError) and res.value.args else []
                try:
                    for r in resps or []:
                        if getattr(r, "error", None) == 0:
                            for i in idx_by_tp.get((r.topic, r.partition), []):
                                self.sends[i].acked.append((self.step, r.topic, r.partition, r.offset, None))
                except TypeError:
                    pass
                return res
            d.addBoth(seen)
            return d
        self.client.send_produce_request = spr
        self.sends = []
        self.step = 0
        self.produce_reqs = []  # (step, time, Req, {(topic, partition): [(key, value)]})
        self.stop_called_step = None
        self.stop_d_fired = 0
        self.retry_delays = []  # (time, delay) of the producer's own retry timers
        self._clock_seen = 0
        self.batch_resolved_times = []
        self.value_owner = {}  # value bytes -> (send index, message index)
        self.dup_owners = {}  # (key, value) -> every (send index, message index) that sent exactly this record

    def c08_call_done(self, res, c08):
        """C08 at the producer -> client seam: a produce call none of whose payloads reached a connection is a failed
        send (whatever the client reports): the partition's cached routing must be re-resolved -- a metadata
        request -- before the next call for it completes."""
        n0, stale_at_start, tps = c08
        st = self._c08
        for tp, mark in stale_at_start.items():
            if st["last_meta"] < mark and st["stale"].get(tp) == mark:
                self.viol("self-heal", "failed-send-did-not-invalidate-routing",
                          "a produce call for %s/%d completed without any metadata request although the previous "
                          "call for it had failed without reaching a connection" % tp)
        written = set(tp for (_s, _t, _r, content) in self.produce_reqs[n0:] for tp in content)
        from twisted.python.failure import Failure
        if isinstance(res, Failure):
            if not res.check(FailedPayloadsError):
                return res  # refused before routing (no leader, unknown topic, cancelled ...): not a send
            failed = set((p_.topic, p_.partition) for p_, _f in (res.value.args[1] if len(res.value.args) > 1 else []))
            tps = [tp for tp in tps if tp in failed]
        for tp in tps:
            if tp not in written and self.stop_called_step is None:
                st["n"] += 1
                st["stale"][tp] = st["n"]
        return res

    # ------------------------------------------------------------------ app
    def do_app(self, op):
        from twisted.python.failure import Failure
        kind = op[0]
        if kind == "send":
            _k, topic, key, msgs = op
            key = None if key is None else key.encode("latin-1")
            vals = [None if m is None else m.encode("latin-1") for m in msgs]
            s = Send(len(self.sends), topic, key, vals)
            for j, v in enumerate(vals):
                self.value_owner.setdefault((key, v), (s.i, j))
                self.dup_owners.setdefault((key, v), []).append((s.i, j))
            s.t_send = self.clock.seconds()
            self.sends.append(s)
            try:
                d = self.producer.send_messages(topic, key=key, msgs=vals)
            except Exception as e:
                s.raised = e
                self.viol("api", "send-messages-raises:%s" % type(e).__name__, "send_messages raised %r" % (e,))
                return
            s.d = d

            def cb(res, s=s):
                s.fired += 1
                s.result = res
                s.t_fired = self.clock.seconds()
                s.step_fired = self.step
                if s.fired > 1:
                    self.viol("exactly-once", "send-deferred-fired-twice", "send %d fired %d times" % (s.i, s.fired))
                self.judge_send(s)
                return None
            d.addBoth(cb)
        elif kind == "cancel":
            s = self.sends[op[1]]
            if s.d is not None and not s.fired:
                s.cancelled = True
                s.d.cancel()
        elif kind == "stop":
            self.stop_called_step = self.step
            n_calls, n_reqs = len(self.calls), len(self.produce_reqs)
            d = self.producer.stop()
            if self.PROP == "C19" and (len(self.calls) > n_calls or len(self.produce_reqs) > n_reqs):
                self.viol("stop", "batch-dispatched-during-stop",
                          "stop() handed %d new batch(es) to the client and %d produce request(s) reached the wire "
                          "while it was running (sends involved: %r)" % (
                              len(self.calls) - n_calls, len(self.produce_reqs) - n_reqs,
                              [c[2] for c in self.calls[n_calls:]]))

            def fired(res):
                self.stop_d_fired += 1
                return None
            if d is not None:
                d.addBoth(fired)
        elif kind == "wait":
            pass
        elif kind == "close_client":
            # the application closes the KafkaClient under the producer: every later attempt is refused at once
            self.client_closed_step = self.step
            self.client.close()
        else:
            raise ValueError(op)

    def app_guard(self, op):
        if op[0] == "wait":
            # proceed once virtual time has passed the mark; a harness timer makes sure time can get there
            if getattr(self, "_wait_armed", None) != self.script_pos and self.clock.seconds() < op[1]:
                self._wait_armed = self.script_pos

                def harness_wait():
                    pass
                self.clock.callLater(op[1] - self.clock.seconds(), harness_wait)
            return self.clock.seconds() >= op[1]
        return True

    def quiescent(self):
        """Only periodic timers (batch LoopingCall) may remain."""
        pc = self.cfg.get("producer", {})
        queued = [s for s in self.sends if s.d is not None and not s.fired and not s.call_steps]
        qn = sum(len(s.msgs) for s in queued)
        if any(not s.fired for s in self.sends if s.d is not None and (
                s.call_steps or not pc.get("batch_send") or (pc.get("batch_every_n") and
                                                             qn >= pc["batch_every_n"]))):
            return False
        for c in self.clock.pending():
            name = getattr(c.func, "__qualname__", "") or repr(c.func)
            if "LoopingCall" in name or "unpark" in name:
                continue
            return False
        return True

    # ------------------------------------------------------------------ observation
    def on_frame(self, conn, req):
        p = req.parsed
        if p is None:
            return
        if self.PROP == "C08":
            self.c08_frame(req)
        if self.PROP == "C04":
            self.c04_frame(req)
        if p["api_key"] == rk.PRODUCE and p["body"] is not None:
            content = {}
            for t in p["body"]["topics"]:
                for part in t["partitions"]:
                    content[(t["topic"], part["partition"])] = [(m["key"], m["value"]) for m in
                                                                 rk.flatten(part["records"], absolute=False)]
            self.produce_reqs.append((self.step, self.clock.seconds(), req, content))
            for tp, kvs in content.items():
                for s in self._sends_in(tp[0], kvs):
                    if s.first_wire_step is None:
                        s.first_wire_step = self.step
                    if not s.wire_steps or s.wire_steps[-1] != self.step:
                        s.wire_steps.append(self.step)
            self.check_wire(req, content)

    def owner_for(self, kv, used):
        """Who sent this record?  For records sent more than once (identical topic, key and payload) the copies seen
        in one request belong to the oldest sends that were not resolved before ever being dispatched."""
        owners = self.dup_owners.get(kv)
        if not owners:
            return None
        if len(owners) == 1:
            return owners[0]
        free = [o for o in owners if o not in used]
        pending = [o for o in free if not self.sends[o[0]].fired]
        live = [o for o in free if not (self.sends[o[0]].fired and not self.sends[o[0]].call_steps)]
        o = (pending or live or free or owners)[0]
        used.add(o)
        return o

    def _sends_in(self, topic, kvs):
        out = []
        seen = set()
        used = set()
        for k, v in kvs:
            o = self.owner_for((k, v), used)
            if o is not None and o[0] not in seen and self.sends[o[0]].topic == topic:
                seen.add(o[0])
                out.append(self.sends[o[0]])
        return out

    def on_event(self, label):
        if self.PROP == "C08":
            self.c08_event()
        # collect the producer's own retry timers from the clock journal
        j = self.clock.journal
        while self._clock_seen < len(j):
            now, delay, name = j[self._clock_seen]
            self._clock_seen += 1
            if name.startswith("Deferred.callback"):
                self.retry_delays.append((now, delay, self.step))
        if not label.startswith("app"):
            if label.split(":")[0] in ("refuse", "drop", "silent", "bclose", "cluster", "hang") or "err=" in label:
                self.reacted = True
                injected = True
                if label.startswith("refuse:"):
                    a = self.net.attempts[int(label.split(":")[1])]
                    injected = self.cluster.listening(a.host, a.port)  # nobody listens there: not a fault of ours
                if injected:
                    self.last_fault_step = self.step
                    self.last_fault_time = self.clock.seconds()
        self.check_step(label)
        self.step += 1

    def _content_of(self, req):
        for _st, _t, r, content in self.produce_reqs:
            if r is req:
                return content
        return {}

    # ------------------------------------------------------------------ C01 oracle
    def judge_send(self, s):
        from afkak.common import ProduceResponse
        from twisted.python.failure import Failure
        if self.PROP not in ("C01", "C08"):
            return
        res = s.result
        if isinstance(res, Failure):
            # a retriable failure may only be reported once the configured attempts have been used
            from afkak.common import KafkaError
            from twisted.internet.defer import CancelledError
            if (res.check(KafkaError) and not res.check(CancelledError) and s.call_steps and not s.cancelled and
                    self.stop_called_step is None and getattr(self, "client_closed_step", None) is None and
                    len(s.call_steps) < self.max_attempts and not self.lookup_trouble()):
                self.viol("retry-budget", "send-failed-before-retries-ran-out:%s" % res.type.__name__,
                          "send %d failed with %s after %d attempt(s), max_req_attempts=%d" % (
                              s.i, res.type.__name__, len(s.call_steps), self.max_attempts))
            return
        # success
        if isinstance(res, BaseException):
            self.viol("truthful-ack", "success-with-exception-value:%s" % type(res).__name__,
                      "send %d (%s) succeeded with the exception object %r as its value" % (s.i, s.topic, res))
            return
        if self.acks == 0:
            if res is not None:
                self.viol("truthful-ack", "acks0-success-value", "acks=0 send succeeded with %r" % (res,))
            if not s.wire_steps:
                self.viol("truthful-ack", "acks0-success-before-handed-to-connection",
                          "acks=0 send %d succeeded but no produce request containing it was written" % s.i)
            return
        if not isinstance(res, ProduceResponse):
            self.viol("truthful-ack", "success-value-not-a-produce-response:%s" % type(res).__name__,
                      "send %d succeeded with %r" % (s.i, res))
            return
        if res.error != 0 or res.topic != s.topic:
            self.viol("truthful-ack", "success-with-error-response",
                      "send %d to %s succeeded with %r" % (s.i, s.topic, res))
            return
        want = [(s.key, m) for m in s.msgs]
        ok = False
        for (_t, broker, topic, part, base, kvs, _corr, _cid) in self.cluster.produce_applied:
            if topic == res.topic and part == res.partition and base == res.offset:
                for k in range(0, len(kvs) - len(want) + 1):
                    if kvs[k:k + len(want)] == want:
                        ok = True
        if not ok:
            self.viol("truthful-ack", "success-without-acknowledged-append",
                      "send %d succeeded with %r but the leader never acknowledged a request holding exactly its "
                      "messages at that partition/offset (applied: %r)" % (
                          s.i, res, [(a[2], a[3], a[4], len(a[5])) for a in self.cluster.produce_applied]))

    def lookup_trouble(self):
        """A partition lookup had to be retried in this run (the producer charges those retries to the same
        per-batch attempt budget as produce attempts, so the produce attempts alone do not show the budget used)."""
        for r in self.cluster.journal:
            if r.parsed and r.parsed["api_key"] == rk.METADATA:
                if not r.answered or r.injected or r.answer is None:
                    return True
                if any(t["error"] for t in r.answer["topics"]) or any(
                        p_["error"] for t in r.answer["topics"] for p_ in t["partitions"]):
                    return True
        return False

    # ------------------------------------------------------------------ the producer -> client seam
    def note_call(self, payloads):
        """One attempt: the producer hands payloads to KafkaClient.send_produce_request (public API)."""
        content = {}
        idx = []
        idx_by_tp = {}
        for p in payloads:
            vals = []
            for m in p.messages or []:
                if m.attributes & 3:
                    from afkak.kafkacodec import KafkaCodec
                    from afkak.codec import gzip_decode, snappy_decode
                    raw = gzip_decode(m.value) if (m.attributes & 3) == 1 else snappy_decode(m.value)
                    vals.extend((om.message.key, om.message.value)
                                for om in KafkaCodec._decode_message_set_iter(raw))
                else:
                    vals.append((m.key, m.value))
            content[(p.topic, p.partition)] = vals
            used = set()
            for v in vals:
                o = self.owner_for(v, used)
                if o is not None:
                    if o[0] not in idx:
                        idx.append(o[0])
                    if o[0] not in idx_by_tp.setdefault((p.topic, p.partition), []):
                        idx_by_tp[(p.topic, p.partition)].append(o[0])
        if self.cfg.get("same_content") and self.calls and self.calls[-1][3] == content and \
                getattr(self, "_last_call_failed", False):
            # identical records: a call that repeats the content of the previous, failed call is its retry and
            # belongs to the same sends (a fresh dispatch with the very same content could not be told apart)
            idx = list(self.calls[-1][2])
            idx_by_tp = {tp: list(idx) for tp in content}
        new = [i for i in idx if not self.sends[i].call_steps]
        for i in idx:
            self.sends[i].call_steps.append(self.step)
        self.calls.append((self.step, self.clock.seconds(), idx, content))
        if self.PROP != "C09":
            return idx_by_tp
        if new:
            for s in self.sends:
                if s.call_steps and s.i not in idx and not s.fired:
                    self.viol("batching", "later-batch-dispatched-while-earlier-unresolved",
                              "send(s) %r were dispatched while send %d of an earlier batch was unresolved" % (
                                  new, s.i))
        seen = set()
        for tp, vals in content.items():
            last = None
            for v in vals:
                o = self.value_owner.get(v)
                if o is None:
                    continue
                if v in seen:
                    self.viol("order", "message-in-two-payloads-of-one-attempt",
                              "value %r appears twice in one produce attempt" % (v,))
                seen.add(v)
                if last is not None and o < last:
                    self.viol("order", "send-order-broken-inside-attempt",
                              "partition %r carries %r (send %d) after a message of send %d" % (tp, v, o[0], last[0]))
                last = o
        if self.acks != 0:
            for i in idx:
                s = self.sends[i]
                for (st, t, pn, _off, _b) in s.acked:
                    if st < self.step:
                        self.viol("retry", "acknowledged-payload-sent-again",
                                  "messages of send %d were acknowledged without error (step %d, %s/%d) and are "
                                  "handed to the client again at step %d" % (s.i, st, t, pn, self.step))
        for i in idx:
            s = self.sends[i]
            if len(s.call_steps) > self.max_attempts:
                self.viol("retry", "more-attempts-than-configured",
                          "send %d was attempted %d times, max_req_attempts=%d" % (
                              s.i, len(s.call_steps), self.max_attempts))
        return idx_by_tp

    # ------------------------------------------------------------------ C09 oracle pieces
    def check_wire(self, req, content):
        if self.PROP != "C09":
            return
        # per-partition order inside the request; each message in exactly one payload of the request
        seen_vals = set()
        for tp, kvs in content.items():
            last = None
            for k, v in kvs:
                o = self.value_owner.get((k, v))
                if o is None:
                    continue
                if (k, v) in seen_vals:
                    self.viol("order", "message-in-two-payloads-of-one-request",
                              "message %r appears twice in one produce request" % ((k, v),))
                seen_vals.add((k, v))
                if last is not None and o < last:
                    self.viol("order", "send-order-broken-inside-request",
                              "partition %r carries %r (send %d) after a message of send %d" % (
                                  tp, v, o[0], last[0]))
                last = o

    def check_step(self, label):
        if self.PROP == "C09":
            # acknowledged sends are reported at once
            if self.acks != 0:
                for s in self.sends:
                    if s.acked and not s.fired and s.acked[0][0] < self.step and not s.cancelled:
                        self.viol("retry", "acknowledged-send-not-reported-at-once",
                                  "send %d was acknowledged at step %d but its Deferred is still pending" % (
                                      s.i, s.acked[0][0]))
            # geometric retry delays, reset when the batch resolves
            if self.retry_delays:
                self._check_delays()
        if self.stop_called_step is not None and self.PROP in ("C19",):
            for (st, _t, _r, content) in self.produce_reqs:
                if st > self.stop_called_step:
                    self.viol("stop", "produce-request-after-stop",
                              "a produce request was written at step %d, after stop() at step %d" % (
                                  st, self.stop_called_step))
            if self.step == self.stop_called_step:
                from afkak.common import CancelledError as AfkakCancelled
                from twisted.internet.defer import CancelledError
                from twisted.internet.error import ConnectingCancelledError
                from twisted.python.failure import Failure
                for s in self.sends:
                    if s.d is not None and not s.fired:
                        self.viol("stop", "send-outstanding-after-stop", "send %d still pending after stop()" % s.i)
                    elif s.step_fired == self.step and not (isinstance(s.result, Failure) and
                                                            s.result.check(CancelledError, AfkakCancelled,
                                                                           ConnectingCancelledError)):
                        self.viol("stop", "stop-resolves-send-without-cancellation-error",
                                  "stop() resolved send %d with %r instead of a cancellation error" % (s.i, s.result))

    def _check_delays(self):
        # batches are the groups of sends first handed to the client together; a batch resolves at the step its
        # last send fires; retry timers armed from that step on belong to the next epoch (interval reset)
        batches = {}
        for (st, _t, idx, _c) in self.calls:
            for i in idx:
                if self.sends[i].call_steps and self.sends[i].call_steps[0] == st:
                    batches.setdefault(st, []).append(i)
        resolved_steps = []
        for st, members in batches.items():
            if all(self.sends[i].fired for i in members):
                resolved_steps.append(max(self.sends[i].step_fired for i in members))
        # sends that fail before any client call (partition lookup exhausted) also end an epoch
        for s in self.sends:
            if s.fired and not s.call_steps and not s.cancelled:
                resolved_steps.append(s.step_fired)
        expected = self.retry_interval
        last_epoch = None
        for (now, delay, step) in self.retry_delays:
            epoch = sum(1 for r in resolved_steps if r <= step)
            if epoch != last_epoch:
                expected = self.retry_interval
                last_epoch = epoch
            if abs(delay - expected) > 1e-9:
                self.viol("retry", "retry-delay-not-geometric",
                          "retry timer armed with %.6f s at step %d, expected %.6f s (interval %.3f x %s^k, reset "
                          "after the batch resolves); delays so far %r" % (
                              delay, step, expected, self.retry_interval, FACTOR,
                              [round(d, 6) for _n, d, _s in self.retry_delays]))
                return
            expected = expected * FACTOR

    # ------------------------------------------------------------------ explorer protocol
    def finish(self, horizon):
        if self.PROP == "C04" and not self.reacted and not getattr(self, "early_timeouts", 0):
            from twisted.python.failure import Failure
            for s in self.sends:
                if s.fired and isinstance(s.result, Failure):
                    self.viol("negotiation", "neg:send-fails-against-correct-broker:%s" % s.result.type.__name__,
                              "send %d failed with %r although the broker answered every request correctly (reply "
                              "decoded with the wrong layout?)" % (s.i, s.result.value))
        pc = self.cfg.get("producer", {})
        queued = [s for s in self.sends if s.d is not None and not s.fired and not s.call_steps]
        qn = sum(len(s.msgs) for s in queued)
        qb = sum(len(m) for s in queued for m in s.msgs if m is not None)
        over = bool(pc.get("batch_send")) and ((pc.get("batch_every_n") and qn >= pc["batch_every_n"]) or
                                               (pc.get("batch_every_b") and qb >= pc["batch_every_b"]))
        for s in self.sends:
            if s.d is not None and not s.fired and (s.call_steps or self.stop_called_step is not None or
                                                    not pc.get("batch_send") or over):
                self.viol("exactly-once", "send-never-resolves%s" % ("-horizon" if horizon else ""),
                          "send %d (%s) never resolved (schedule %r)" % (s.i, s.topic, self.trace[-12:]))
        if self.PROP == "C08":
            # self-heal: a send issued well after the last fault is acknowledged (one stale attempt, a refresh, done)
            from twisted.python.failure import Failure
            lf = getattr(self, "last_fault_time", None)
            cl = self.cluster
            healthy = all(ld in cl.brokers and cl.brokers[ld]["up"] for ld in cl.leader.values())
            for s in self.sends if healthy else []:  # (a partition left on a dead broker is not a healthy cluster)
                if s.d is None or s.cancelled or self.stop_called_step is not None:
                    continue
                if (lf is None or s.t_send >= lf + 20.0) and s.fired and isinstance(s.result, Failure) and \
                        not self.cluster.modes and self.max_attempts >= 3:
                    self.viol("self-heal", "send-after-faults-ceased-fails:%s" % s.result.type.__name__,
                              "send %d, issued at t=%.1f (last fault at t=%s), failed with %s although the cluster "
                              "has been healthy since" % (s.i, s.t_send, lf, s.result.type.__name__))
        if self.PROP == "C09":
            # log order: first occurrences per partition follow send order
            for tp, log in self.cluster.logs.items():
                last = None
                seen = set()
                for (_off, _k, v) in log.all_leaves():
                    o = self.value_owner.get((_k, v))
                    if o is None or (_k, v) in seen:
                        continue
                    seen.add((_k, v))
                    if last is not None and o < last:
                        self.viol("order", "send-order-broken-in-log",
                                  "log of %r stores %r (send %d) after a message of send %d" % (tp, v, o[0], last[0]))
                    last = o

    def outcome(self):
        out = []
        for s in self.sends:
            r = s.result
            v = getattr(r, "value", r)
            out.append((s.i, s.fired, type(v).__name__, len(s.wire_steps), len(s.acked)))
        return (tuple(out), len(self.produce_reqs), len(self.net.conns), self.stop_d_fired)

    def nontrivial(self):
        return self.reacted or any(s.cancelled for s in self.sends) or self.stop_called_step is not None


class BatchWorld(ProducerWorld):
    """C19: batching thresholds, time limit, cancellation and stop, explored breadth-first.

    The client is warmed up (metadata cached, discovery off) so that a dispatch is visible at the
    producer->client seam in the same step as the event that caused it.  App operations come from an
    alphabet (not a script): every enabled one is explored in every state.
    cfg: producer={batch_every_n,b,t}, sizes=[...], max_sends, max_cancels, err (bool)
    """

    PROP = "C19"

    def setup(self):
        self.cfg = dict(self.cfg)
        prod = dict(self.cfg.get("producer", {}))
        if "unbatched" not in prod:
            prod["batch_send"] = True
        prod.pop("unbatched", None)
        prod.setdefault("max_req_attempts", 2)
        self.cfg["producer"] = prod
        ProducerWorld.setup(self)
        self.PROP = "C19"
        self.n = 1 if not prod.get("batch_send") else prod.get("batch_every_n", 0)
        self.b = 1 if not prod.get("batch_send") else prod.get("batch_every_b", 0)
        self.t = None if not prod.get("batch_send") else prod.get("batch_every_t", 0)
        self.seam_pending = 0
        self.dispatch_steps = []
        self.tick_this_step = False
        self.cancels = 0
        self.nsends = 0
        self.dispatched_sends = set()
        # warm-up prelude: load metadata with the default schedule
        d = self.client.load_metadata_for_topics("t")
        d.addErrback(lambda f: None)
        guard = 0
        while True:
            io = [x for x in self.io_events() if x[1] == Z]
            if not io:
                break
            ClientWorld.apply(self, io[0][0])
            guard += 1
            assert guard < 20
        self.trace = []
        self.step = 0
        orig = self.client.send_produce_request
        world = self

        def counted(payloads=None, *a, **kw):
            world.seam_pending += 1
            world.dispatch_steps.append(world.step)
            d = orig(payloads, *a, **kw)

            def done(res):
                world.seam_pending -= 1
                return res
            d.addBoth(done)
            return d
        self.client.send_produce_request = counted
        self.meta_pending = 0
        orig_meta = self.client.load_metadata_for_topics

        def meta(*topics):
            # the producer resolves partitions through this public method before handing a batch to the client
            world.meta_pending += 1
            d = orig_meta(*topics)

            def done(res):
                world.meta_pending -= 1
                return res
            d.addBoth(done)
            return d
        self.client.load_metadata_for_topics = meta

    # ---- alphabet
    def enabled(self):
        if self.stopped:
            return []
        en = []
        for lab, c in self.io_events():
            if lab.startswith("reply") or lab.startswith("accept") or lab.startswith("closed"):
                en.append((lab, c))
        if self.clock.pending():
            en.append(("timer", Z))
        if self.stop_called_step is None:
            if self.nsends < self.cfg.get("max_sends", 4):
                for k in range(len(self.cfg.get("sizes", ["1", "12", "1+6"]))):
                    en.append(("app:send:%d" % k, Z))
            if self.cancels < self.cfg.get("max_cancels", 2):
                pend = [s for s in self.sends if s.d is not None and not s.fired]
                picks = []
                if pend:
                    picks.append(pend[0])
                    if pend[-1] is not pend[0]:
                        picks.append(pend[-1])
                for s in picks:
                    en.append(("app:cancel:%d" % s.i, Z))
            if self.cfg.get("stop", True):
                en.append(("app:stop", Z))
        return en

    def apply(self, label):
        self.tick_this_step = False
        self.pre_queue = self.model_queue()
        self.pre_inflight = self.inflight()
        if label.startswith("app:"):
            self.trace.append(label)
            parts = label.split(":")
            try:
                if parts[1] == "send":
                    spec = self.cfg.get("sizes", ["1", "12", "1+6"])[int(parts[2])]
                    msgs = []
                    for j, piece in enumerate(spec.split("+")):
                        if piece == "N":
                            msgs.append(None)
                        else:
                            # (same_content: the application sends the same record again and again)
                            tag = "s%d.%d:" % (0 if self.cfg.get("same_content") else self.nsends, j)
                            n = int(piece)
                            msgs.append((tag + "x" * n)[:max(n, 1)] if n < len(tag) else tag + "x" * (n - len(tag)))
                    self.nsends += 1
                    self.do_app(["send", "t", "k" if self.cfg.get("same_content") else "k%d" % self.nsends, msgs])
                elif parts[1] == "cancel":
                    self.cancels += 1
                    self.do_app(["cancel", int(parts[2])])
                elif parts[1] == "stop":
                    self.do_app(["stop"])
            except Exception as e:
                import traceback
                self.on_reactor_error(label, e, traceback.format_exc())
            self.on_event(label)
        else:
            if label == "timer":
                nxt = self.clock.pending()[0]
                name = getattr(nxt.func, "__qualname__", "") or repr(nxt.func)
                self.tick_this_step = "LoopingCall" in name
            ClientWorld.apply(self, label)

    # ---- reference model (recomputed from scratch every step)
    def model_queue(self):
        """Sends accepted, not cancelled, never handed to the client."""
        return [s for s in self.sends if s.d is not None and not s.call_steps and not (s.fired and not s.call_steps)]

    def threshold_met(self, queue):
        cnt = sum(len(s.msgs) for s in queue)
        byt = sum(len(m) for s in queue for m in s.msgs if m is not None)
        return bool((self.n and self.n <= cnt) or (self.b and self.b <= byt))

    def inflight(self):
        if self.seam_pending or self.meta_pending:
            return True
        # any one-shot timer (the producer's retry timer, a reconnect backoff) means a batch is still in progress;
        # periodic timers (the batch time limit) and the simulator's own timers do not
        for c in self.clock.pending():
            name = getattr(c.func, "__qualname__", "") or repr(c.func)
            owner = getattr(c.func, "__self__", None)
            if "LoopingCall" in name or type(owner).__name__ == "LoopingCall" or "SimCluster" in name or \
                    "VNet" in name:
                continue
            return True
        return False

    def check_step(self, label):
        ProducerWorld.check_step(self, label)
        dispatched_now = [st for st in self.dispatch_steps if st == self.step]
        new_now = [s for s in self.sends if s.call_steps and s.call_steps[0] == self.step]
        if self.stop_called_step is not None:
            if dispatched_now and self.step > self.stop_called_step:
                self.viol("stop", "dispatch-after-stop", "a batch was handed to the client after stop()")
            return
        queue = self.model_queue()
        # P1: a new batch only when nothing was in flight before this event (or the in-flight batch resolved in it)
        # P3: dispatch must be justified
        if new_now:
            justified = self.tick_this_step or self.threshold_met(new_now + queue)
            if not justified:
                self.viol("threshold", "dispatch-below-thresholds",
                          "sends %r were dispatched with %d messages / %d bytes queued, thresholds n=%r b=%r, no "
                          "timer tick (schedule %r)" % (
                              [s.i for s in new_now], sum(len(s.msgs) for s in new_now),
                              sum(len(m) for s in new_now for m in s.msgs if m is not None), self.n, self.b,
                              self.trace[-8:]))
            # a dispatch takes the whole queue
            if queue:
                self.viol("threshold", "dispatch-leaves-queued-sends-behind",
                          "dispatch of %r left sends %r queued" % ([s.i for s in new_now], [s.i for s in queue]))
        # P2/P4: must dispatch when nothing is in flight and (threshold met or tick)
        if queue and not self.inflight():
            if self.threshold_met(queue):
                self.viol("threshold", "threshold-met-nothing-in-flight-not-dispatched",
                          "sends %r are queued (%d msgs, %d bytes >= thresholds n=%r b=%r), no batch is in flight, "
                          "yet nothing was dispatched (schedule %r)" % (
                              [s.i for s in queue], sum(len(s.msgs) for s in queue),
                              sum(len(m) for s in queue for m in s.msgs if m is not None), self.n, self.b,
                              self.trace[-8:]))
            elif self.tick_this_step:
                self.viol("time-limit", "tick-with-queue-not-dispatched",
                          "the batch timer ticked with sends %r queued and nothing in flight, yet nothing was "
                          "dispatched" % ([s.i for s in queue],))
        # P6: a send cancelled before dispatch never reaches the client
        for s in self.sends:
            if s.cancelled and s.call_steps and s.cancel_step is not None and s.call_steps[0] > s.cancel_step:
                self.viol("cancel", "cancelled-send-transmitted",
                          "send %d was cancelled at step %d before dispatch but handed to the client at step %d" % (
                              s.i, s.cancel_step, s.call_steps[0]))

    def do_app(self, op):
        if op[0] == "cancel":
            s = self.sends[op[1]]
            s.cancel_step = self.step
            was_dispatched = bool(s.call_steps)
            others = [x for x in self.sends if x is not s and not x.fired and x.d is not None]
            ProducerWorld.do_app(self, op)
            from afkak.common import CancelledError as AfkakCancelled
            from twisted.internet.defer import CancelledError
            from twisted.python.failure import Failure
            if not (s.fired and isinstance(s.result, Failure) and s.result.check(CancelledError, AfkakCancelled)):
                self.viol("cancel", "cancel-does-not-fail-caller-with-cancelled-error",
                          "cancel of send %d left it fired=%r result=%r" % (s.i, s.fired, s.result))
            for x in others:
                if x.fired:
                    self.viol("cancel", "cancel-resolves-another-send",
                              "cancelling send %d also resolved send %d with %r" % (s.i, x.i, x.result))
            return
        ProducerWorld.do_app(self, op)

    def finish(self, horizon):
        pass

    def fingerprint(self):
        from mc import fingerprint as fpmod
        mon = [(s.i, s.fired, type(getattr(s.result, "value", s.result)).__name__, s.cancelled, len(s.call_steps))
               for s in self.sends]
        conns = [(c.cid, len(c.server.queue) if c.server else 0, c.client_closing) for c in self.net.open_conns()]
        ignore = [self.net, self.clock, self.cluster, self.seam] + list(self.net.conns) + list(self.net.attempts)
        calls = [round(c.getTime() - self.clock.seconds(), 9) for c in self.clock.pending()]
        return fpmod.fingerprint((self.producer, mon, conns, calls, self.seam_pending, self.meta_pending,
                                  sorted(self._sigs),
                                  self.stop_called_step is not None), now=self.clock.seconds(), ignore=ignore)
