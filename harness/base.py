"""ClientWorld: the real KafkaClient on the virtual clock / network / cluster,
with the event alphabet, default schedule and deviation costs of DESIGN.md
section 2.3 and Appendix C.  Property harnesses subclass it, add an application
script and monitors.
"""
import traceback

from mc import fingerprint as fpmod
from mc.explore import Violation
from mc.world import VClock, VNet, install_seams
from ref import refkafka as rk
from ref import simcluster

F = (1, 0)  # one fault deviation
S = (0, 1)  # one schedule deviation
Z = (0, 0)


def build_cluster(clock, net, spec):
    """spec: {"brokers": [1,2] | {id: "modern"|"legacy-close"|"legacy-silent"|[[k,lo,hi],..]},
              "topics": {"t": {"0": leader, ...}}, "magic": 0|1, "coordinator": id}"""
    cl = simcluster.SimCluster(clock, net)
    brokers = spec.get("brokers", [1])
    if isinstance(brokers, dict):
        items = [(int(k), v) for k, v in sorted(brokers.items(), key=lambda kv: int(kv[0]))]
    else:
        items = [(int(b), "modern") for b in brokers]
    for bid, ver in items:
        if ver == "modern":
            ver = simcluster.MODERN
        elif isinstance(ver, list):
            ver = [tuple(x) for x in ver]
        cl.add_broker(bid, versions=ver)
    for topic, parts in sorted(spec.get("topics", {}).items()):
        for pn, leader in sorted(parts.items(), key=lambda kv: int(kv[0])):
            cl.add_partition(topic, int(pn), int(leader), magic=spec.get("magic", 0))
    if spec.get("coordinator") is not None:
        cl.default_coordinator = int(spec["coordinator"])
    for m in spec.get("modes", []):
        cl.modes.append(dict(m))
    cl.meta_order = spec.get("meta_order", "asc")
    return cl


class ClientWorld(object):
    """cfg keys (all optional): cluster, hosts, timeout_ms, discovery, disconnect_on_timeout, menu, script,
    horizon_s, client_id"""

    PROP = "C00"

    def __init__(self, cfg):
        from afkak.client import KafkaClient

        self.cfg = cfg
        self.clock = VClock()
        self.net = VNet(self.clock)
        self.seam = install_seams(self.clock)
        self.seam.script = list(cfg.get("shuffle", []))
        self.cluster = build_cluster(self.clock, self.net, cfg.get("cluster", {"brokers": [1]}))
        self.menu = cfg.get("menu", {})
        hosts = cfg.get("hosts")
        if hosts is None:
            hosts = ",".join("%s:%d" % (b["host"], b["port"]) for _i, b in sorted(self.cluster.brokers.items()))
        self.policy_calls = []

        def policy(n):
            self.policy_calls.append(n)
            return cfg.get("retry_base", 0.5) * n

        self.client = KafkaClient(hosts, clientId=cfg.get("client_id", "verif"), timeout=cfg.get("timeout_ms", 10000),
                                  disconnect_on_timeout=cfg.get("disconnect_on_timeout", False), reactor=self.clock,
                                  endpoint_factory=self.net.endpoint_factory, retry_policy=policy,
                                  enable_protocol_version_discovery=cfg.get("discovery", False))
        self.violations = []
        self._sigs = set()
        self.script = list(cfg.get("script", []))
        self.script_pos = 0
        self.reactor_errors = []
        self.trace = []
        self.faults_taken = 0
        self.sched_taken = 0
        self.deviations_taken = 0
        self.reacted = False
        self.horizon_s = cfg.get("horizon_s", 600.0)
        self.stopped = False
        self.net.frame_handlers.append(self._frame_seen)
        self.setup()

    # ------------------------------------------------------------------ hooks for subclasses
    def setup(self):
        pass

    def do_app(self, op):
        raise NotImplementedError

    def app_guard(self, op):
        """May the next script op run now by default? (called only when no I/O event is enabled)"""
        return True

    def quiescent(self):
        """Called when script is exhausted and no I/O is enabled: True -> the run ends even if timers are pending."""
        return not self.clock.pending()

    def on_event(self, label):
        pass

    def on_frame(self, conn, req):
        pass

    def extra_events(self):
        return self.cluster_event_alts()

    def cluster_event_alts(self):
        """Cluster-side events (leader move, broker restart, re-address ...) offered as fault deviations, each
        usable once per run: menu["cluster_events"] = [["move", topic, partition, broker], ["restart", broker],
        ["readdress", broker, host, port], ["phantom_joins", group], ...]"""
        evs = self.menu.get("cluster_events")
        if not evs:
            return []
        used = getattr(self, "_cluster_used", None)
        if used is None:
            used = self._cluster_used = set()
        out = []
        for i, ev in enumerate(evs):
            if i not in used:
                out.append(("cluster:%d" % i, F))
        return out

    def do_cluster_event(self, i):
        from twisted.internet import error
        ev = self.menu["cluster_events"][i]
        self._cluster_used.add(i)
        kind = ev[0]
        cl = self.cluster
        if kind == "move":
            cl.move_leader((ev[1], ev[2]), ev[3])
        elif kind in ("restart", "readdress"):
            bid = ev[1]
            if kind == "readdress":
                cl.brokers[bid]["host"], cl.brokers[bid]["port"] = ev[2], ev[3]
            for c in list(self.net.open_conns()):
                if c.server is not None and c.server.broker_id == bid:
                    c.close(error.ConnectionLost("broker %d restarted" % bid))
        elif kind == "coordinator":
            cl.coordinator[ev[1]] = ev[2]
        elif kind == "fail_over":
            # broker ev[1] goes silent for good; its partitions and group coordination move to broker ev[2]
            dead, heir = ev[1], ev[2]
            cl.modes.append({"broker": dead, "silent": True, "budget": -1})
            for tp, ld in list(cl.leader.items()):
                if ld == dead:
                    cl.leader[tp] = heir
            cl.default_coordinator = heir if cl.default_coordinator == dead else cl.default_coordinator
            for g, b_ in list(cl.coordinator.items()):
                if b_ == dead:
                    cl.coordinator[g] = heir
        elif kind in ("phantom_joins", "phantom_leaves", "evict"):
            from ref import simgroup
            {"phantom_joins": simgroup.phantom_joins, "phantom_leaves": simgroup.phantom_leaves,
             "evict": simgroup.evict_real}[kind](cl, ev[1])
        elif kind == "kill":
            # broker ev[1] dies (connections reset, port closed); its partitions and groups move to broker ev[2]
            dead, heir = ev[1], ev[2]
            cl.brokers[dead]["up"] = False
            for tp, ld in list(cl.leader.items()):
                if ld == dead:
                    cl.leader[tp] = heir
            cl.default_coordinator = heir if cl.default_coordinator == dead else cl.default_coordinator
            for g, b_ in list(cl.coordinator.items()):
                if b_ == dead:
                    cl.coordinator[g] = heir
            for c in list(self.net.open_conns()):
                if c.server is not None and c.server.broker_id == dead:
                    c.close(error.ConnectionLost("broker %d died" % dead))
        elif kind == "add_partition":
            cl.add_partition(ev[1], ev[2], ev[3])
        elif kind == "append":
            log = cl.logs[(ev[1], ev[2])]
            log.append_plain(None, ev[3].encode("latin-1"), magic=log.magic, timestamp=7)
            cl.wake_fetches((ev[1], ev[2]))
        else:
            raise ValueError(ev)

    def mid_events(self, io_default):
        """Events ordered after network I/O but before application calls and timers."""
        return []

    def do_extra(self, label):
        raise NotImplementedError(label)

    # ------------------------------------------------------------------ helpers
    def viol(self, oracle, sig, msg):
        if sig in self._sigs:
            return
        self._sigs.add(sig)
        self.violations.append(Violation(oracle, "%s:%s" % (self.PROP, sig), msg))

    def _frame_seen(self, conn, payload):
        for req in reversed(self.cluster.journal[-3:]):
            if req.raw is payload:
                self.on_frame(conn, req)
                return

    def conn(self, cid):
        return self.net.conns[cid]

    # ------------------------------------------------------------------ enabled events
    def io_events(self):
        """[(label, cost)] of network events, default-priority order: attempts, closes, replies."""
        ev = []
        menu = self.menu
        for a in self.net.pending_attempts():
            up = self.cluster.listening(a.host, a.port)
            if up:
                ev.append(("accept:%d" % a.aid, Z))
                if menu.get("refuse"):
                    ev.append(("refuse:%d" % a.aid, F))
                if menu.get("hang"):
                    ev.append(("hang:%d" % a.aid, F))  # the connection never establishes (SYN black-holed)
                if menu.get("dnsfail"):
                    ev.append(("dnsfail:%d" % a.aid, F))  # the host name does not resolve (not a ConnectError)
            else:
                ev.append(("refuse:%d" % a.aid, Z))
        for c in self.net.open_conns():
            if c.client_closing:
                ev.append(("closed:%d" % c.cid, Z))
        first_reply = True
        for c in self.net.open_conns():
            if c.client_closing and not menu.get("reply_while_closing"):
                continue
            r = self.cluster.answerable(c)
            if r is None:
                continue
            api = r.parsed["api_key"] if r.parsed else None
            legacy = api == rk.API_VERSIONS and isinstance(self.cluster.brokers[r.broker]["versions"], str)
            if legacy:
                kind = self.cluster.brokers[r.broker]["versions"]
                if kind == "legacy-close":
                    ev.append(("bclose:%d" % c.cid, Z if first_reply else S))
                else:
                    ev.append(("silent:%d" % c.cid, Z if first_reply else S))
            else:
                ev.append(("reply:%d" % c.cid, Z if first_reply else S))
                for e in menu.get("err", {}).get(str(api), []):
                    ev.append(("reply:%d:err=%d" % (c.cid, e), F))
                    if menu.get("err_per_partition") and r.parsed and r.parsed["body"] and \
                            api in (rk.PRODUCE, rk.FETCH, rk.LIST_OFFSETS, rk.OFFSET_COMMIT, rk.OFFSET_FETCH):
                        tps = [(t["topic"], p["partition"]) for t in r.parsed["body"]["topics"]
                               for p in t["partitions"]]
                        if len(tps) > 1:
                            for t, p in tps:
                                ev.append(("reply:%d:err=%d@%s/%d" % (c.cid, e, t, p), F))
                if api == rk.FETCH:
                    for k in menu.get("corrupt", []):
                        ev.append(("reply:%d:corrupt=%d" % (c.cid, k), F))  # bit error in the k-th message
                if menu.get("silent"):
                    ev.append(("silent:%d" % c.cid, F))
            first_reply = False
        if menu.get("drop"):
            for c in self.net.open_conns():
                if not c.client_closing and (c.server.queue or menu.get("drop_idle")):
                    ev.append(("drop:%d" % c.cid, F))
        return ev

    def enabled(self):
        out = self._enabled()
        self.enabled_cached = out
        return out

    def _enabled(self):
        if self.stopped or self.clock.seconds() > self.horizon_s:
            return []
        io = self.io_events()
        late_closed = []
        if self.menu.get("lazy_close"):
            # connectionLost notifications take their time: by default they are delivered after the application's
            # next call instead of eagerly
            late_closed = [x for x in io if x[0].startswith("closed:")]
            io = [x for x in io if not x[0].startswith("closed:")]
        cand = list(io)
        io_default = any(c == Z for _l, c in io)
        mid = self.mid_events(io_default)
        cand.extend(mid)
        io_default = io_default or any(c == Z for _l, c in mid)
        app_left = self.script_pos < len(self.script)
        if app_left:
            op = self.script[self.script_pos]
            if not io_default and self.app_guard(op):
                cand.append(("app:%d" % self.script_pos, Z))
            elif self.menu.get("app_early") and self.app_early_ok(op):
                cand.append(("app:%d" % self.script_pos, S))
        cand.extend(late_closed)
        have_default = any(c == Z for _l, c in cand)
        if self.clock.pending():
            if not have_default:
                if app_left or not self.quiescent():
                    cand.append(("timer", Z))
            elif self.menu.get("timer_early"):
                cand.append(("timer", S))
        cand.extend(self.extra_events())
        first = None
        # connection establishment takes time: after SPIN attempts at one virtual instant the clock must advance
        # before the next attempt completes (otherwise an immediate-reconnect loop never lets a timer fire)
        if self.clock.pending() and self._attempts_now() >= self.SPIN:
            first = ("timer", Z)
            cand = [x for x in cand if x[0] != "timer"]
        else:
            for x in cand:
                if x[1] == Z:
                    first = x
                    break
        if first is None:
            return []  # quiescent, or nothing but deviations possible
        out = [first]
        reorder = self.menu.get("reorder")
        for x in cand:
            if x is first:
                continue
            if x[1] == Z:
                if reorder:
                    out.append((x[0], S))
            else:
                out.append(x)
        return out

    SPIN = 4

    def _attempts_now(self):
        """Largest number of connection attempts made to one address at the current virtual instant."""
        now = self.clock.seconds()
        per = {}
        for j in reversed(self.net.journal[getattr(self, "_spin_mark", 0):]):
            if j[0] == "attempt":
                if j[4] == now:
                    per[(j[2], j[3])] = per.get((j[2], j[3]), 0) + 1
                else:
                    break
        return max(per.values()) if per else 0

    def app_early_ok(self, op):
        return True

    # ------------------------------------------------------------------ apply
    def apply(self, label):
        self.trace.append(label)
        try:
            en = self.enabled_cached
        except AttributeError:
            en = None
        if en and en[0][0] != label:
            self.deviations_taken += 1
            if label == "timer" and self.clock.pending():
                # a timer overtaking pending I/O: when it is a request timeout the broker was, in effect, too slow
                name = getattr(self.clock.pending()[0].func, "__qualname__", "")
                if "timeout" in name.lower():
                    self.early_timeouts = getattr(self, "early_timeouts", 0) + 1
        if label.startswith("app") or label == "timer":
            self._spin_mark = len(self.net.journal)  # only an uninterrupted burst of reconnects counts as spinning
        parts = label.split(":")
        kind = parts[0]
        try:
            if kind == "accept":
                a = self.net.attempts[int(parts[1])]
                self._accept(a)
            elif kind == "refuse":
                self.net.refuse(self.net.attempts[int(parts[1])])
            elif kind == "dnsfail":
                from twisted.internet import error
                a = self.net.attempts[int(parts[1])]
                a.state = "refused"
                self.net.journal.append(("refuse", a.aid))
                a.d.errback(error.DNSLookupError("no such host (virtual resolver)"))
            elif kind == "hang":
                # the SYN is black-holed; the endpoint's own connect timeout (30 s for HostnameEndpoint, which
                # afkak relies on: "Afkak does not apply a timeout to connection attempts") ends the attempt
                a = self.net.attempts[int(parts[1])]
                a.state = "hung"
                self.net.journal.append(("hang", a.aid))

                def endpoint_timeout(a=a):
                    if a.state == "hung":
                        from twisted.internet import error
                        a.state = "refused"
                        a.d.errback(error.TimeoutError("endpoint connect timeout"))
                endpoint_timeout.__qualname__ = "VNet.endpoint_connect_timeout"
                self.clock.callLater(30.0, endpoint_timeout)
            elif kind == "closed":
                from twisted.internet import error
                self.conn(int(parts[1])).close(error.ConnectionDone("closed cleanly"))
            elif kind == "drop" or kind == "bclose":
                from twisted.internet import error
                c = self.conn(int(parts[1]))
                if kind == "bclose":
                    self.cluster.swallow(c)
                c.close(error.ConnectionLost("dropped by virtual network"))
            elif kind == "reply":
                c = self.conn(int(parts[1]))
                err, only, corrupt = None, None, None
                if len(parts) > 2 and parts[2].startswith("corrupt="):
                    corrupt = int(parts[2][8:])
                elif len(parts) > 2:
                    spec = parts[2][4:]
                    if "@" in spec:
                        e, tp = spec.split("@")
                        t, p = tp.rsplit("/", 1)
                        err, only = int(e), (t, int(p))
                    else:
                        err = int(spec)
                self.cluster.reply(c, err, only, corrupt=corrupt)
                if c.b2c:
                    c.deliver()
            elif kind == "silent":
                self.cluster.swallow(self.conn(int(parts[1])))
            elif kind == "timer":
                self.clock.fire_next()
            elif kind == "app":
                op = self.script[self.script_pos]
                self.script_pos += 1
                self.do_app(op)
            elif kind == "cluster":
                self.do_cluster_event(int(parts[1]))
            else:
                self.do_extra(label)
        except Exception as e:
            self.reactor_errors.append((label, e, traceback.format_exc()))
            self.on_reactor_error(label, e, traceback.format_exc())
        self.on_event(label)

    def _accept(self, a):
        # server side must exist before the client's queued requests are flushed inside accept
        def hook(conn, payload):
            pass
        orig = self.net.on_frame
        bid = self.cluster.broker_at(a.host, a.port)

        def on_frame(conn, payload):
            if conn.server is None:
                conn.server = simcluster.ServerConn(bid)
            orig(conn, payload)
        self.net.on_frame = on_frame
        try:
            conn = self.net.accept(a, "broker")
        finally:
            self.net.on_frame = orig
        if conn.server is None:
            conn.server = simcluster.ServerConn(bid)
        return conn

    def on_reactor_error(self, label, e, tb):
        self.viol("reactor-callback", "exception-escapes-into-reactor:%s:%s" % (label.split(":")[0], type(e).__name__),
                  "event %s: %r escaped from afkak into the reactor\n%s" % (label, e, tb[-1200:]))

    # ------------------------------------------------------------------ C04: negotiated versions on the wire
    def c04_frame(self, req):
        p = req.parsed
        if p is None:
            self.viol("wire-grammar", "neg:request-does-not-parse", "unparseable request: %s" % req.grammar_error)
            return
        name = rk.API_NAMES.get(p["api_key"], str(p["api_key"]))
        if "client_id" in self.cfg:
            want = self.cfg["client_id"]
            want = b"afkak-client" if want is None else want.encode("utf-8")
            if p["client_id"] != want:
                self.viol("wire-grammar", "neg:client-id-on-the-wire-differs",
                          "%s request carries client id %r, the application supplied %r" % (
                              name, p["client_id"], want))
        if req.grammar_error:
            self.viol("wire-grammar", "neg:request-does-not-parse:%s-v%d" % (name, p["api_version"]),
                      "%s v%d request rejected by the reference parser: %s" % (name, p["api_version"],
                                                                                req.grammar_error))
        if p["api_key"] in (rk.PRODUCE, rk.FETCH):
            table = self.cluster.brokers[req.broker]["versions"]
            v = p["api_version"]
            if isinstance(table, str):
                if v != 0:
                    self.viol("negotiation", "neg:no-fallback-to-v0-without-discovery:%s" % name,
                              "%s v%d sent to a broker that does not implement ApiVersions" % (name, v))
            else:
                rng = [(lo, hi) for k, lo, hi in table if k == p["api_key"]]
                if rng and not (rng[0][0] <= v <= rng[0][1]):
                    self.viol("negotiation", "neg:version-not-advertised:%s" % name,
                              "%s v%d sent, the broker advertised %r" % (name, v, rng[0]))
            if v not in (0, 2):
                self.viol("negotiation", "neg:version-not-implemented:%s" % name,
                          "%s v%d sent; afkak implements v0 and v2" % (name, v))

    # ------------------------------------------------------------------ C08: stale routing must be re-resolved
    def c08_frame(self, req):
        """Call from on_frame: a produce/fetch for a partition whose routing was invalidated must be preceded by a
        metadata request."""
        p = req.parsed
        if p is None or p["body"] is None:
            return
        st = self.__dict__.setdefault("_c08", {"stale": {}, "last_meta": -1, "n": 0})
        st["n"] += 1
        if p["api_key"] == rk.METADATA:
            st["last_meta"] = st["n"]
            return
        if p["api_key"] in (rk.PRODUCE, rk.FETCH):
            for t in p["body"]["topics"]:
                for part in t["partitions"]:
                    tp = (t["topic"], part["partition"])
                    if tp in st["stale"] and st["last_meta"] < st["stale"][tp]:
                        self.viol("self-heal", "request-to-invalidated-partition-without-metadata-refresh",
                                  "a %s for %s/%d was sent although its routing had been invalidated (error 3/6 or "
                                  "failed send) and no metadata request was made since" % (
                                      rk.API_NAMES[p["api_key"]], tp[0], tp[1]))
                    st["stale"].pop(tp, None)

    def c08_event(self):
        """Call from on_event: note answers with not-leader / unknown-partition delivered to the client."""
        st = self.__dict__.setdefault("_c08", {"stale": {}, "last_meta": -1, "n": 0})
        for r in self.cluster.journal:
            if r.answered and not getattr(r, "_c08", False) and r.parsed and r.parsed["body"] is not None:
                r._c08 = True
                if r.answer is None or r.parsed["api_key"] not in (rk.PRODUCE, rk.FETCH):
                    continue
                for t in r.answer["topics"]:
                    for part in t["partitions"]:
                        if part["error"] in (3, 6):
                            st["n"] += 1
                            st["stale"][(t["topic"], part["partition"])] = st["n"]

    # ------------------------------------------------------------------ explorer protocol defaults
    def finish(self, horizon):
        pass

    def outcome(self):
        return tuple(self.trace[-1:])

    def nontrivial(self):
        return self.reacted

    def fingerprint(self):
        return fpmod.fingerprint((self.client,), now=self.clock.seconds(),
                                 ignore=[self.net, self.clock, self.cluster] + list(self.net.conns))
