"""H-CO: real Consumer + real KafkaClient + SimCluster.  Serves C02 (delivery:
every message once, in order, never concurrently), C03 (commits never ahead of
processing; restart from the committed position), C13 (stop/shutdown), C14
(retry delays, offset-reset policy, buffer growth) and the consumer half of C12.
"""
from harness.base import ClientWorld, F, S, Z
from ref import refkafka as rk

FACTOR = 1.20205
TOPIC = "t"
GROUP = "g"


def build_log(log, spec, magic):
    """spec items: ["p", key, value] | ["w", codec, [[k, v], ...]] | ["gap", n] | ["base", N] | ["big", size]
    | ["wgap", codec, [[k, v], ...], [rel offsets]]"""
    def b(x):
        return None if x is None else x.encode("latin-1")
    for item in spec:
        kind = item[0]
        if kind == "base":
            log.next_offset = item[1]
            log.log_start = item[1]
        elif kind == "gap":
            log.next_offset += item[1]
        elif kind == "p":
            log.append_plain(b(item[1]), b(item[2]), magic=magic, timestamp=7)
        elif kind == "big":
            log.append_plain(b"big", b"B" * item[1], magic=magic, timestamp=7)
        elif kind == "w":
            log.append_wrapper([(b(k), b(v)) for k, v in item[2]], item[1], magic=magic)
        elif kind == "wgap":
            first = log.next_offset
            offs = [first + r for r in item[3]]
            log.append_wrapper([(b(k), b(v)) for k, v in item[2]], item[1], magic=magic, offsets=offs)
        else:
            raise ValueError(item)


class Invocation(object):
    __slots__ = ("n", "offsets", "step", "d", "done", "ok", "consumer_id")


class ConsumerWorld(ClientWorld):
    """cfg: log=[...], magic, start (int | "earliest" | "latest" | "committed"), stored (int|None),
    consumer={...kwargs...}, group (bool), processor ("sync"|"async"), fail_at=[k...], stop_inside=k,
    script ops: ["start"], ["stop"], ["shutdown"], ["commit"], ["append", k, v], ["crash"], ["restart", offset]
    """

    PROP = "C02"

    def setup(self):
        self.PROP = self.cfg.get("prop", "C02")
        cfg = self.cfg
        self.tp = (TOPIC, 0)
        log = self.cluster.logs[self.tp]
        build_log(log, cfg.get("log", []), cfg.get("magic", 0))
        if cfg.get("log_start") is not None:
            log.log_start = cfg["log_start"]
        if cfg.get("stored") is not None:
            self.cluster.offsets[(GROUP,) + self.tp] = (cfg["stored"], "")
        self.mode = cfg.get("processor", "sync")
        self.fail_at = set(cfg.get("fail_at", []))
        self.stop_inside = cfg.get("stop_inside")
        self.consumers = []  # every Consumer object ever created (crash/restart create new ones)
        self.consumer = None
        self.invocations = []
        self.proc_pending = None
        self.start_results = []  # (consumer index, fired count, result)
        self.stop_returns = []
        self.shutdown_results = []
        self.commit_results = []
        self.step = 0
        self.expected_next = None  # index into the leaves list of the next message to deliver
        self.first_fetch_seen = False
        self.delivered = []  # offsets delivered, in order (current incarnation)
        self.succeeded = set()  # offsets whose processor invocation completed successfully
        self.failed_offsets = set()
        self.resets = 0
        self.reset_pending = False
        self.wire = []  # (step, time, api, body, consumer_epoch) of requests attributable to the consumer
        self.epoch = 0  # incremented on crash/restart
        self.stop_step = None
        self.stopped_epochs = set()
        self.commits_wire = []  # (step, offset, generation, member, epoch, last_processed_at_issue)
        self.commit_outstanding = 0
        self.last_ack_commit = None
        self.acked_commits = set()
        self.read_commits = set()
        self._clock_seen = 0
        self.retry_timers = []  # (time, delay, step, name)
        self.fetch_reqs = []  # (step, time, offset, max_bytes, epoch)
        self.offset_reqs = []  # (step, time, api, epoch)
        self.answers = []
        self.start_epoch_step = 0
        self.app_log = []
        self.issue_log = []
        self.out_of_range_answers = 0
        self.commit_failures = 0
        self.crashes = 0
        self.all_delivered = set()
        self.requests_issued = 0
        self.consec_failures = 0
        self.failure_log = []
        self.success_log = []
        self.expect_retry = False
        self.last_max_bytes = None
        self._timers_judged = 0
        self.unrecoverable_seen = False
        self.make_consumer()

    # ------------------------------------------------------------------ consumer lifecycle
    def make_consumer(self):
        from afkak.consumer import Consumer
        kw = dict(self.cfg.get("consumer", {}))
        reset = kw.pop("auto_offset_reset", None)
        if reset == "earliest":
            from afkak.common import OFFSET_EARLIEST
            kw["auto_offset_reset"] = OFFSET_EARLIEST
        elif reset == "latest":
            from afkak.common import OFFSET_LATEST
            kw["auto_offset_reset"] = OFFSET_LATEST
        if self.cfg.get("group"):
            kw.setdefault("consumer_group", GROUP)
        self.install_seams()
        self.consumer = Consumer(self.client, TOPIC, 0, self.processor, **kw)
        self.consumers.append(self.consumer)
        return self.consumer

    def install_seams(self):
        """Observe the consumer -> client interface (public KafkaClient methods) by wrapping them."""
        client = self.client
        if getattr(client, "_verif_wrapped", False):
            return
        client._verif_wrapped = True
        world = self
        orig_commit = client.send_offset_commit_request

        def commit(group, payloads=None, *a, **kw):
            world.note_commit_issue(payloads or [], kw)
            d = orig_commit(group, payloads, *a, **kw)
            world.commit_outstanding += 1
            ep = world.epoch

            def done(res):
                from twisted.python.failure import Failure
                if world.epoch == ep:
                    world.commit_outstanding -= 1
                    if isinstance(res, Failure):
                        world.commit_failures += 1
                        limit = world.cfg.get("consumer", {}).get("request_retry_max_attempts", 0)
                        if any(r[0] == len(world.consumers) - 1 for r in world.shutdown_results):
                            limit = limit or 2  # shutdown() bounds the commit retries
                        if limit and world.commit_failures >= limit:
                            world.unrecoverable_seen = True  # commit retries exhausted
                    else:
                        world.commit_failures = 0
                return res
            d.addBoth(done)
            return d
        client.send_offset_commit_request = commit

        def wrap_request(name):
            orig = getattr(client, name)

            def call(*a, **kw):
                world.note_request_issue(name, a, kw)
                out = client.__dict__.setdefault("_verif_outstanding", {})
                if name == "send_fetch_request" and out.get(name, 0) >= 1 and world.PROP == "C02":
                    world.viol("delivery", "second-fetch-outstanding",
                               "the consumer issued a fetch while its previous fetch call has not completed")
                out[name] = out.get(name, 0) + 1
                d = orig(*a, **kw)
                ep = world.epoch

                def done(res):
                    out[name] -= 1
                    if world.epoch == ep:
                        world.note_request_result(name, res)
                    return res
                d.addBoth(done)
                return d
            setattr(client, name, call)
        for name in ("send_fetch_request", "send_offset_request", "send_offset_fetch_request"):
            wrap_request(name)

    def start_offset_value(self, start):
        from afkak.common import OFFSET_COMMITTED, OFFSET_EARLIEST, OFFSET_LATEST
        return {"earliest": OFFSET_EARLIEST, "latest": OFFSET_LATEST, "committed": OFFSET_COMMITTED}.get(start, start)

    def leaves(self):
        return self.cluster.logs[self.tp].all_leaves()

    # ------------------------------------------------------------------ the processor handed to afkak
    def processor(self, consumer, msgs):
        from twisted.internet.defer import Deferred
        inv = Invocation()
        inv.n = len(self.invocations)
        inv.offsets = [m.offset for m in msgs]
        inv.step = self.step
        inv.done = False
        inv.ok = None
        inv.d = None
        inv.consumer_id = self.consumers.index(consumer) if consumer in self.consumers else -1
        self.invocations.append(inv)
        if consumer is not self.consumer:
            self.viol("lifecycle", "processor-invoked-by-abandoned-consumer",
                      "processor invoked by a consumer object that was replaced")
        if self.proc_pending is not None:
            self.viol("concurrency", "processor-invoked-while-previous-pending",
                      "processor invoked with offsets %r while the result for offsets %r is still pending" % (
                          inv.offsets, self.proc_pending.offsets))
        if self.stop_step is not None and self.epoch in self.stopped_epochs and self.PROP in ("C13", "C02"):
            self.viol("stop", "processor-invoked-after-stop",
                      "processor invoked with offsets %r after stop() returned (step %d)" % (inv.offsets, self.stop_step))
        self.judge_delivery(msgs)
        if inv.n in self.fail_at and self.mode == "sync":
            inv.done, inv.ok = True, False
            self.failed_offsets.update(inv.offsets)
            self.unrecoverable_seen = True
            raise RuntimeError("processor failed on invocation %d" % inv.n)
        if self.stop_inside is not None and inv.n == self.stop_inside:
            self.do_stop()
        if self.mode == "sync":
            inv.done, inv.ok = True, True
            self.succeeded.update(inv.offsets)
            return None

        def cancelled(d):
            inv.done, inv.ok = True, None
            if self.proc_pending is inv:
                self.proc_pending = None
        inv.d = Deferred(cancelled)
        self.proc_pending = inv
        return inv.d

    def judge_delivery(self, msgs):
        leaves = self.leaves()
        for m in msgs:
            if m.topic != TOPIC or m.partition != 0:
                self.viol("delivery", "message-wrong-topic-partition", "%r" % (m,))
            if self.expected_next is None:
                # position is fixed by the first fetch the consumer issued; if none was seen this is premature
                self.viol("delivery", "message-delivered-before-any-fetch", "%r" % (m,))
                return
            if self.expected_next >= len(leaves):
                self.viol("delivery", "message-beyond-log-end",
                          "delivered offset %d but the log has nothing at or after position %d" % (
                              m.offset, self.expected_next))
                return
            off, key, val = leaves[self.expected_next]
            got = (m.offset, m.message.key, m.message.value)
            if got != (off, key, val):
                if m.offset < off:
                    kind = "repeat-or-out-of-order"
                elif m.offset > off:
                    kind = "omission"
                else:
                    kind = "content-differs"
                self.viol("delivery", "delivery-%s" % kind,
                          "processor received offset %d key %r value %r, the next log entry is offset %d key %r "
                          "value %r (delivered so far %r)" % (m.offset, m.message.key, (m.message.value or b"")[:20],
                                                               off, key, (val or b"")[:20], self.delivered[-6:]))
                # resynchronise so that one fault is reported once
                idx = [i for i, lf in enumerate(leaves) if lf[0] == m.offset]
                self.expected_next = (idx[0] + 1) if idx else self.expected_next
            else:
                self.expected_next += 1
            self.delivered.append(m.offset)
            self.all_delivered.add(m.offset)

    # ------------------------------------------------------------------ app ops
    def do_app(self, op):
        kind = op[0]
        self.app_log.append((self.step, op))
        if kind == "start":
            start = op[1] if len(op) > 1 else self.cfg.get("start", "earliest")
            self.begin(start)
        elif kind == "stop":
            self.do_stop()
        elif kind == "shutdown":
            c = self.consumer
            ci = len(self.consumers) - 1
            try:
                d = c.shutdown()
            except Exception as e:
                self.shutdown_results.append([ci, 1, e, self.step, self.step, (None, None), False])
                return
            rec = [ci, 0, None, self.step, None, None, False]
            self.shutdown_results.append(rec)

            def fired(res, rec=rec, c=c):
                rec[1] += 1
                rec[2] = res
                rec[4] = self.step
                rec[5] = (c.last_processed_offset, c.last_committed_offset)
                return None
            d.addBoth(fired)
        elif kind == "commit":
            rec = [len(self.consumers) - 1, 0, None, self.step]
            self.commit_results.append(rec)
            try:
                d = self.consumer.commit()
            except Exception as e:
                rec[1], rec[2] = 1, e
                return

            def fired(res, rec=rec):
                rec[1] += 1
                rec[2] = res
                return None
            d.addBoth(fired)
        elif kind == "append":
            log = self.cluster.logs[self.tp]
            log.append_plain(None if op[1] is None else op[1].encode("latin-1"), op[2].encode("latin-1"),
                             magic=self.cfg.get("magic", 0), timestamp=7)
            self.cluster.wake_fetches(self.tp)
        elif kind == "crash":
            self.crash()
        elif kind == "restart":
            self.begin(op[1])
        else:
            raise ValueError(op)

    def begin(self, start):
        c = self.consumer
        ci = len(self.consumers) - 1
        self.current_start = start
        self.expected_next = None
        self.first_fetch_seen = False
        self.delivered = []
        self.start_epoch_step = self.step
        self.consec_failures = 0  # start() begins a fresh retry sequence
        self.epoch += 0
        rec = [ci, 0, None, self.step, None, None, False]
        self.start_results.append(rec)
        self.stopped_epochs.discard(self.epoch)
        self.stop_step = None
        try:
            d = c.start(self.start_offset_value(start))
        except Exception as e:
            rec[1], rec[2] = 1, e
            self.viol("api", "start-raises:%s" % type(e).__name__, "start(%r) raised %r" % (start, e))
            return

        def fired(res, rec=rec, c=c):
            rec[1] += 1
            rec[2] = res
            rec[4] = self.step
            rec[5] = c.last_processed_offset
            if rec[1] > 1:
                self.viol("start-deferred", "start-deferred-fired-twice", "start() Deferred fired %d times" % rec[1])
            return None
        d.addBoth(fired)

    def do_stop(self):
        c = self.consumer
        try:
            r = c.stop()
        except Exception as e:
            self.stop_returns.append((self.step, "raised", e))
            return
        self.stop_returns.append((self.step, "returned", r))
        self.stop_step = self.step
        self.stopped_epochs.add(self.epoch)

    def crash(self):
        """Process death: abandon every client-side object, keep the cluster; a fresh client + consumer
        starts from the committed position."""
        from afkak.client import KafkaClient
        from twisted.internet import error
        # the dead process' sockets close; its timers never fire
        for c in self.net.open_conns():
            c.open = False
            c.transport.connected = False
            self.cluster._on_close(c)
        for a in self.net.pending_attempts():
            a.state = "cancelled"
        for call in list(self.clock.pending()):
            name = getattr(call.func, "__qualname__", "")
            if "unpark" in name:
                continue
            call.cancel()
        self.proc_pending = None
        self.epoch += 1
        self.crash_state = (self.cluster.offsets.get((GROUP,) + self.tp, (None, ""))[0], set(self.succeeded))
        hosts = ",".join("%s:%d" % (b["host"], b["port"]) for _i, b in sorted(self.cluster.brokers.items()))
        self.client = KafkaClient(hosts, clientId="verif2", timeout=self.cfg.get("timeout_ms", 10000),
                                  reactor=self.clock, endpoint_factory=self.net.endpoint_factory,
                                  retry_policy=lambda n: 0.5 * n,
                                  enable_protocol_version_discovery=self.cfg.get("discovery", False))
        self.commit_outstanding = 0
        self.make_consumer()
        self.begin("committed")

    # ------------------------------------------------------------------ events
    def mid_events(self, io_default):
        ev = []
        if self.proc_pending is not None:
            if not io_default:
                ev.append(("proc:ok", Z))
            elif self.menu.get("proc_early"):
                ev.append(("proc:ok", S))
            if self.menu.get("proc_fail"):
                ev.append(("proc:fail", F))
                # the processor's own work was cancelled (its Deferred fails with CancelledError although the
                # consumer is not being stopped): a processing failure like any other
                ev.append(("proc:cancelled", F))
        return ev

    def extra_events(self):
        ev = list(self.cluster_event_alts())
        if self.menu.get("crash") and self.crashes < self.menu.get("crash", 1) and self.start_results:
            ev.append(("crash", F))
        return ev

    def do_extra(self, label):
        if label == "crash":
            self.crashes += 1
            self.crash()
            return
        inv = self.proc_pending
        self.proc_pending = None
        inv.done = True
        if label == "proc:ok":
            inv.ok = True
            self.succeeded.update(inv.offsets)
            inv.d.callback(None)
        else:
            inv.ok = False
            self.failed_offsets.update(inv.offsets)
            self.unrecoverable_seen = True
            if label == "proc:cancelled":
                from twisted.internet.defer import CancelledError
                inv.d.errback(CancelledError("processor's own work was cancelled on invocation %d" % inv.n))
            else:
                inv.d.errback(RuntimeError("processor failed on invocation %d" % inv.n))

    def consumer_stopped(self):
        """stop() has returned, or a shutdown has completed, since the last start()."""
        if not self.start_results:
            return True
        t0 = self.start_results[-1][3]
        if any(r[1] == "returned" and r[0] >= t0 for r in self.stop_returns):
            return True
        return any(r[1] and r[4] is not None and r[4] >= t0 and r[0] == self.start_results[-1][0]
                   for r in self.shutdown_results)

    def app_early_ok(self, op):
        if op[0] in ("restart", "start") and self.start_results:
            return self.consumer_stopped()  # starting a running consumer is an application error
        if op[0] in ("stop", "shutdown", "commit") and not self.start_results:
            return False
        return True

    def app_guard(self, op):
        g = None
        if len(op) > 2 and isinstance(op[-1], dict):
            g = op[-1]
        if isinstance(op[-1], dict):
            g = op[-1]
        if g and self.start_results and self.start_results[-1][1]:
            # the start Deferred has fired (failure or stop): the application goes on with its script
            g = {k: v for k, v in g.items() if k in ("time", "stopped")}
        if g:
            if "delivered" in g and len(self.all_delivered) < g["delivered"]:
                return False
            if "invocations" in g and len(self.invocations) < g["invocations"]:
                return False
            if g.get("stopped") and not self.consumer_stopped():
                return False
            if "time" in g and self.clock.seconds() < g["time"]:
                return False
        return True

    def quiescent(self):
        """Ends the run when nothing but idle polling / periodic timers remains and obligations are met."""
        if self.proc_pending is not None:
            return False
        if self.consumer_running():
            if self.expected_next is None:
                return False
            if self.expected_next < len(self.leaves()) and not self.cfg.get("expect_stall"):
                return False
            if self.commit_outstanding:
                return False
            for c in self.clock.pending():
                name = getattr(c.func, "__qualname__", "") or repr(c.func)
                if "_send_commit_request" in name:
                    return False
        for rec in self.shutdown_results:
            if not rec[1] and rec[0] == len(self.consumers) - 1:
                return False
        return True

    def consumer_running(self):
        if not self.start_results:
            return False
        rec = self.start_results[-1]
        return rec[1] == 0

    # ------------------------------------------------------------------ wire observation
    def on_frame(self, conn, req):
        p = req.parsed
        if p is None or p["body"] is None:
            return
        api = p["api_key"]
        body = p["body"]
        if self.PROP == "C08":
            self.c08_frame(req)
        if self.PROP == "C04":
            self.c04_frame(req)
        self.harvest()
        if api in (rk.FETCH, rk.LIST_OFFSETS, rk.OFFSET_FETCH, rk.OFFSET_COMMIT):
            self.wire.append((self.step, self.clock.seconds(), api, self.epoch))
            if self.stop_step is not None and self.epoch in self.stopped_epochs and self.PROP in ("C13", "C02"):
                self.viol("stop", "request-after-stop:%s" % rk.API_NAMES[api],
                          "a %s request reached the broker at step %d, after stop() returned at step %d" % (
                              rk.API_NAMES[api], self.step, self.stop_step))
        if api == rk.FETCH:
            part = body["topics"][0]["partitions"][0]
            self.fetch_reqs.append((self.step, self.clock.seconds(), part["offset"], part["max_bytes"], self.epoch))
            if not self.first_fetch_seen or self.reset_pending:
                self.first_fetch_seen = True
                self.fix_position(part["offset"])
        elif api in (rk.LIST_OFFSETS, rk.OFFSET_FETCH):
            self.offset_reqs.append((self.step, self.clock.seconds(), api, self.epoch))
        elif api == rk.OFFSET_COMMIT:
            part = body["topics"][0]["partitions"][0]
            lp = self.consumer.last_processed_offset
            self.commits_wire.append((self.step, part["offset"], body["generation"], body["member"], self.epoch, lp))
            self.judge_commit(part["offset"], lp)

    def fix_position(self, fetch_offset):
        """The consumer has resolved its position: everything from the first log entry at/after it is due."""
        leaves = self.leaves()
        idx = len(leaves)
        for i, lf in enumerate(leaves):
            if lf[0] >= fetch_offset:
                idx = i
                break
        start = getattr(self, "current_start", None)
        want = self.expected_start_offset()
        if want is not None and fetch_offset != want and not self.reset_pending:
            self.viol("start-position", "first-fetch-at-wrong-offset",
                      "start=%r: the first fetch asks for offset %d, expected %d" % (start, fetch_offset, want))
        if self.reset_pending:
            self.reset_pending = False
            self.resets += 1
            wantr = None
            for (st, api, val) in self.answers:
                if st >= self.reset_policy_step and api == rk.LIST_OFFSETS and val is not None:
                    wantr = val
            if wantr is not None and fetch_offset != wantr:
                self.viol("offset-reset", "reset-fetch-at-wrong-offset",
                          "after an out-of-range answer with policy %r the next fetch asks for %d, expected %d" % (
                              self.cfg.get("consumer", {}).get("auto_offset_reset"), fetch_offset, wantr))
        self.expected_next = idx

    def expected_start_offset(self):
        start = getattr(self, "current_start", None)
        log = self.cluster.logs[self.tp]
        if isinstance(start, int):
            return start
        # derive from the answers the cluster actually gave in this epoch
        ans = [a for a in self.answers if a[0] >= self.start_epoch_step]
        # the most recent successful answer counts (earlier ones may have been lost to a fault and re-asked)
        if start in ("earliest", "latest"):
            for (_st, api, val) in reversed(ans):
                if api == rk.LIST_OFFSETS and val is not None:
                    return val
            return None
        if start == "committed":
            stored = None
            for (_st, api, val) in reversed(ans):
                if api == rk.OFFSET_FETCH and val is not None:
                    stored = val
                    break
            if stored is None:
                return None
            if stored >= 0:
                return stored + 1
            for (_st, api, val) in reversed(ans):
                if api == rk.LIST_OFFSETS and val is not None:
                    return val
        return None

    def on_event(self, label):
        if self.PROP == "C08":
            self.c08_event()
        self.harvest()
        j = self.clock.journal
        while self._clock_seen < len(j):
            now, delay, name = j[self._clock_seen]
            self._clock_seen += 1
            self.retry_timers.append((now, delay, self.step, name))
        if label.split(":")[0] in ("refuse", "drop", "silent", "proc") or "err=" in label or "corrupt=" in label:
            self.reacted = True
        self.check_step(label)
        self.step += 1

    def harvest(self):
        """Note the answers the cluster has given so far (called before judging anything that depends on them)."""
        for r in self.cluster.journal:
            if r.answered and not getattr(r, "_seen_co", False) and r.parsed and r.parsed["body"] is not None:
                r._seen_co = True
                api = r.parsed["api_key"]
                if r.answer is None:
                    continue
                if api == rk.LIST_OFFSETS:
                    part = r.answer["topics"][0]["partitions"][0]
                    self.answers.append((self.step, api, part["offsets"][0] if part["error"] == 0 and part["offsets"]
                                         else None))
                elif api == rk.OFFSET_FETCH:
                    part = r.answer["topics"][0]["partitions"][0]
                    self.answers.append((self.step, api, part["offset"] if part["error"] == 0 else None))
                    if part["error"] == 0 and part["offset"] >= 0:
                        self.read_commits.add(part["offset"])
                elif api == rk.FETCH:
                    part = r.answer["topics"][0]["partitions"][0]
                    if part["error"] == 1:
                        self.on_out_of_range()
                elif api == rk.OFFSET_COMMIT:
                    part = r.answer["topics"][0]["partitions"][0]
                    if part["error"] in (22, 24, 25):
                        self.unrecoverable_seen = True  # the coordinator rejects the member: not retriable
                    if part["error"] == 0:
                        off = r.parsed["body"]["topics"][0]["partitions"][0]["offset"]
                        self.acked_commits.add(off)

    def on_out_of_range(self):
        self.out_of_range_answers += 1
        policy = self.cfg.get("consumer", {}).get("auto_offset_reset")
        log = self.cluster.logs[self.tp]
        if policy is None:
            return
        self.reset_pending = True
        self.reset_target = None  # resolved by the following ListOffsets answer; checked in fix_position via answers
        self.reset_policy_step = self.step

    # ------------------------------------------------------------------ C03: commits
    def note_commit_issue(self, payloads, kw):
        self.issue_log.append((self.step, "commit"))
        if self.stop_step is not None and self.epoch in self.stopped_epochs and self.PROP == "C13":
            self.viol("stop", "commit-issued-after-stop", "a commit was handed to the client after stop() returned")
        if self.PROP != "C03":
            return
        lp = self.consumer.last_processed_offset
        for p in payloads:
            v = p.offset
            if v != lp:
                self.viol("commit", "commit-value-is-not-last-processed",
                          "commit issued with offset %r while last_processed_offset is %r" % (v, lp))
            bad_pending = sorted(o for o in self.all_delivered if o <= v and o not in self.succeeded and
                                 o not in self.failed_offsets)
            bad_failed = sorted(o for o in self.all_delivered if o <= v and o in self.failed_offsets and
                                o not in self.succeeded)
            if bad_pending:
                self.viol("commit", "commit-covers-message-still-being-processed",
                          "commit of offset %d issued while delivered offsets %r have not completed processing" % (
                              v, bad_pending))
            if bad_failed:
                self.viol("commit", "commit-covers-message-whose-processing-failed",
                          "commit of offset %d issued although the processor failed for offsets %r (processed ok: %r)"
                          % (v, bad_failed, sorted(self.succeeded)))
        if self.commit_outstanding >= 1:
            self.viol("commit", "second-commit-request-outstanding",
                      "a commit request was issued while another one is still outstanding")

    def judge_commit(self, offset, last_processed):
        pass

    # ------------------------------------------------------------------ C14: request outcomes seen by the consumer
    def note_request_issue(self, name, a, kw):
        self.issue_log.append((self.step, name))
        self.requests_issued += 1
        if self.stop_step is not None and self.epoch in self.stopped_epochs and self.PROP == "C13":
            self.viol("stop", "request-issued-after-stop:%s" % name,
                      "%s was called at step %d, after stop() returned at step %d" % (name, self.step, self.stop_step))
        if self.PROP in ("C14", "C12"):
            limit = self.cfg.get("consumer", {}).get("request_retry_max_attempts", 0)
            if limit and self.consec_failures >= limit:
                self.viol("retry-limit", "request-reissued-beyond-attempt-limit",
                          "%s issued after %d consecutive failures, request_retry_max_attempts=%d" % (
                              name, self.consec_failures, limit))
            if name == "send_fetch_request":
                self.judge_buffer(a[0][0].max_bytes if a and a[0] else None)

    def note_request_result(self, name, res):
        from twisted.internet.defer import CancelledError
        from twisted.python.failure import Failure
        if name == "send_offset_commit_request" and self.PROP in ("C14", "C12"):
            return  # commits have their own attempt counter and delay; C14's words are about the fetch path
        if isinstance(res, Failure):
            from afkak.common import OffsetOutOfRangeError
            if res.check(OffsetOutOfRangeError):
                self.out_of_range_seen = getattr(self, "out_of_range_seen", 0) + 1  # reached the consumer
            if res.check(CancelledError) and (self.stop_step is not None):
                return
            self.consec_failures += 1
            self.failure_log.append((self.step, self.clock.seconds(), name, res.type.__name__))
            self.expect_retry = True
        else:
            self.consec_failures = 0
            self.success_log.append((self.step, name))

    def judge_buffer(self, max_bytes):
        if max_bytes is None:
            return
        c = self.cfg.get("consumer", {})
        cur = self.last_max_bytes
        self.last_max_bytes = max_bytes
        if cur is None:
            if max_bytes != c.get("buffer_size", 128 * 1024):
                self.viol("buffer", "first-fetch-not-at-initial-buffer-size",
                          "first fetch asks for %d bytes, buffer_size=%r" % (max_bytes, c.get("buffer_size")))
            return
        if max_bytes == cur:
            return
        mx = c.get("max_buffer_size")
        want = cur * (16 if cur <= 2 ** 20 else 2)
        if mx is not None:
            want = min(want, mx)
        if max_bytes != want:
            self.viol("buffer", "buffer-growth-step-wrong",
                      "fetch size went from %d to %d, expected %d (x16 up to 1 MiB then x2, capped at %r)" % (
                          cur, max_bytes, want, mx))

    def check_step(self, label):
        from twisted.python.failure import Failure
        c = self.consumer
        if self.PROP == "C03":
            lc = c.last_committed_offset
            if lc is not None and lc not in self.acked_commits and lc not in self.read_commits:
                self.viol("commit", "last-committed-holds-unacknowledged-value",
                          "last_committed_offset=%r but the coordinator acknowledged %r and reported %r" % (
                              lc, sorted(self.acked_commits), sorted(self.read_commits)))
            stored = self.cluster.offsets.get((GROUP,) + self.tp, (None, ""))[0]
            if stored is not None and stored >= 0:
                bad = sorted(o for o in self.all_delivered if o <= stored and o not in self.succeeded)
                if bad:
                    kind = "failed" if all(o in self.failed_offsets for o in bad) else "pending"
                    self.viol("commit", "stored-offset-ahead-of-processing:%s" % kind,
                              "the coordinator stores offset %d but delivered offsets %r were never processed "
                              "successfully: a crash now would skip them" % (stored, bad))
        if self.PROP == "C13":
            self.check_stop_state(label)
        if self.PROP == "C14":
            self.check_retry_timers()

    # ------------------------------------------------------------------ C13: stop / shutdown
    def consumer_timers(self):
        out = []
        for call in self.clock.pending():
            f = call.func
            owner = getattr(f, "__self__", None)
            name = getattr(f, "__qualname__", "") or repr(f)
            if owner is not None and owner in self.consumers:
                out.append(name)
            elif "LoopingCall" in name or type(owner).__name__ == "LoopingCall":
                lc = owner if type(owner).__name__ == "LoopingCall" else f
                tgt = getattr(lc, "f", None)
                if getattr(tgt, "__self__", None) in self.consumers:
                    out.append("LoopingCall(%s)" % getattr(tgt, "__qualname__", tgt))
        return out

    def check_stop_state(self, label):
        from twisted.python.failure import Failure
        if self.stop_step is not None and self.epoch in self.stopped_epochs:
            t = self.consumer_timers()
            if t:
                self.viol("stop", "timer-left-after-stop:%s" % t[0].split("(")[-1].rstrip(")"),
                          "after stop() returned the clock still holds consumer timers %r" % (t,))
            rec = self.start_results[-1]
            if rec[1] == 0:
                self.viol("stop", "start-deferred-not-fired-by-stop",
                          "stop() returned but the start() Deferred has not fired")
        for rec in self.start_results:
            if rec[1] and not rec[6]:
                rec[6] = True
                stopped = [r for r in self.stop_returns if r[1] == "returned" and r[0] <= rec[4]]
                res = rec[2]
                if isinstance(res, Failure):
                    if not self.unrecoverable_seen and not self.cfg.get("expect_start_failure"):
                        self.viol("start-deferred", "start-deferred-fails-without-unrecoverable-error:%s" %
                                  res.type.__name__,
                                  "start() Deferred failed with %r although no unrecoverable error occurred "
                                  "(stop/shutdown must report the last processed offset)" % (res.value,))
                else:
                    lp = rec[5]
                    if res != lp:
                        self.viol("start-deferred", "start-deferred-value-not-last-processed",
                                  "start() Deferred fired with %r, last_processed_offset is %r" % (res, lp))
        for rec in self.shutdown_results:
            if rec[1] > 1:
                self.viol("shutdown", "shutdown-deferred-fired-twice", "shutdown() Deferred fired %d times" % rec[1])
            if rec[1] == 1 and not rec[6]:
                rec[6] = True
                res = rec[2]
                lp_at, lc_at = rec[5]
                if not isinstance(res, (Failure, Exception)):
                    if res != lp_at:
                        self.viol("shutdown", "shutdown-value-not-last-processed",
                                  "shutdown() fired with %r, last_processed_offset is %r" % (res, lp_at))
                    if self.cfg.get("group") and lp_at is not None and lc_at != lp_at:
                        self.viol("shutdown", "shutdown-success-without-commit",
                                  "shutdown() succeeded with last_committed_offset=%r != last_processed_offset=%r" % (
                                      lc_at, lp_at))
                    if self.proc_pending is not None:
                        self.viol("shutdown", "shutdown-completed-while-processing",
                                  "shutdown() completed while a processor invocation is still pending")
                # after shutdown completes the consumer is stopped
                if self.start_results[-1][1] == 0 and self.start_results[-1][0] == rec[0]:
                    self.viol("shutdown", "shutdown-fired-but-consumer-not-stopped",
                              "shutdown() Deferred fired but the start() Deferred has not")
                self.stop_step = self.step
                self.stopped_epochs.add(self.epoch)

    # ------------------------------------------------------------------ C14: retry timers
    def check_retry_timers(self):
        c = self.cfg.get("consumer", {})
        init = float(c.get("request_retry_init_delay", 0.1))
        mx = float(c.get("request_retry_max_delay", 30.0))
        while self._timers_judged < len(self.retry_timers):
            now, delay, step, name = self.retry_timers[self._timers_judged]
            self._timers_judged += 1
            if "Consumer._do_fetch" not in name:
                continue
            if delay == 0:
                continue
            k = self.failures_at_timer()
            want = min(init * (FACTOR ** max(k - 1, 0)), mx)
            if abs(delay - want) > 1e-9:
                self.viol("retry-delay", "retry-delay-wrong",
                          "retry armed with %.6f s after %d consecutive failures, expected %.6f s "
                          "(init %.3f x %s^(k-1), capped at %.3f)" % (delay, k, want, init, FACTOR, mx))

    def failures_at_timer(self):
        return self.consec_failures

    def finish(self, horizon):
        if self.PROP in ("C02", "C08", "C04") or self.cfg.get("check_delivery"):
            self.finish_c02(horizon)
        if self.PROP in ("C14", "C12"):
            self.finish_c14(horizon)
        if self.PROP == "C13":
            for rec in self.shutdown_results:
                aborted = any(r[1] == "returned" and r[0] >= rec[3] for r in self.stop_returns)
                if rec[1] == 0 and rec[0] == len(self.consumers) - 1 and not aborted:
                    self.viol("shutdown", "shutdown-deferred-never-fires%s" % ("-horizon" if horizon else ""),
                              "shutdown() was called at step %d and its Deferred never fired although faults ceased "
                              "(start Deferred fired: %r; schedule tail %r)" % (
                                  rec[3], bool(self.start_results[-1][1]), self.trace[-8:]))
            self.finish_c02(horizon) if self.cfg.get("check_delivery_after_restart") else None

    def finish_c02(self, horizon):
        if self.consumer_running() and not self.cfg.get("expect_stall"):
            leaves = self.leaves()
            if self.expected_next is None:
                self.viol("delivery", "position-never-resolved%s" % ("-horizon" if horizon else ""),
                          "the consumer never issued a fetch (schedule tail %r)" % (self.trace[-10:],))
            elif self.expected_next < len(leaves):
                self.viol("delivery", "messages-never-delivered%s" % ("-horizon" if horizon else ""),
                          "log entries from offset %d on were never delivered although faults ceased (delivered %r, "
                          "schedule tail %r)" % (leaves[self.expected_next][0], self.delivered[-6:], self.trace[-10:]))
        for rec in self.start_results:
            from twisted.python.failure import Failure
            if self.PROP not in ("C02", "C08", "C04"):
                break
            if rec[1] and isinstance(rec[2], Failure) and not self.cfg.get("expect_start_failure"):
                self.viol("delivery", "start-deferred-failed:%s" % rec[2].type.__name__,
                          "start() Deferred failed with %r in a scenario without unrecoverable errors" % (rec[2].value,))

    def finish_c14(self, horizon):
        from twisted.python.failure import Failure
        c = self.cfg.get("consumer", {})
        limit = c.get("request_retry_max_attempts", 0)
        policy = c.get("auto_offset_reset")
        rec = self.start_results[-1] if self.start_results else None
        leaves = self.leaves()
        if rec is not None and rec[1] and isinstance(rec[2], Failure):
            f = rec[2]
            name = f.type.__name__
            if name == "OffsetOutOfRangeError":
                # (an out-of-range answer counts as a failed attempt, so the attempt limit may end the run first)
                if policy is not None and not limit:
                    self.viol("offset-reset", "out-of-range-fails-start-despite-policy",
                              "start() failed with OffsetOutOfRangeError although auto_offset_reset=%r" % policy)
            elif name == "ConsumerFetchSizeTooSmall":
                need = max(len(e.data) for e in self.cluster.logs[self.tp].entries)
                mx = c.get("max_buffer_size")
                if mx is None or mx >= need:
                    self.viol("buffer", "fetch-size-failure-although-maximum-suffices",
                              "start() failed with ConsumerFetchSizeTooSmall; largest entry needs %d bytes, "
                              "max_buffer_size=%r, fetch sizes used %r" % (
                                  need, mx, sorted(set(x[3] for x in self.fetch_reqs))))
            else:
                if not limit:
                    self.viol("retry-limit", "start-fails-on-retriable-error-without-limit:%s" % name,
                              "start() failed with %r although request_retry_max_attempts=0 (retry forever)" % (
                                  f.value,))
                elif self.consec_failures < 1:
                    self.viol("retry-limit", "start-fails-without-failed-attempt:%s" % name,
                              "start() failed with %r without a preceding failed attempt" % (f.value,))
        else:
            # still running: with faults ceased everything must have been delivered (no message skipped)
            if self.expected_next is None:
                self.viol("retry", "position-never-resolved%s" % ("-horizon" if horizon else ""),
                          "the consumer never issued a fetch although faults ceased (tail %r)" % (self.trace[-8:],))
            elif self.expected_next < len(leaves):
                self.viol("retry", "messages-never-delivered%s" % ("-horizon" if horizon else ""),
                          "log entries from offset %d on were never delivered although faults ceased "
                          "(fetch sizes %r, tail %r)" % (leaves[self.expected_next][0],
                                                         sorted(set(x[3] for x in self.fetch_reqs)), self.trace[-8:]))
            # (an answer the client had already timed out never reaches the consumer: judged at the seam)
            if policy is None and getattr(self, "out_of_range_seen", 0) and not self.cfg.get("group"):
                self.viol("offset-reset", "out-of-range-ignored-without-policy",
                          "an out-of-range answer was given, auto_offset_reset is None, yet start() did not fail")

    def outcome(self):
        sr = tuple((r[0], r[1], type(getattr(r[2], "value", r[2])).__name__) for r in self.start_results)
        return (tuple(self.delivered), sr, len(self.fetch_reqs), len(self.commits_wire), len(self.net.conns),
                tuple(sorted(self.succeeded))[-3:], self.resets)

    def nontrivial(self):
        return self.reacted or self.epoch > 0 or self.stop_step is not None
