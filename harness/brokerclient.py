"""H-BC: the real _KafkaBrokerClient + KafkaProtocol on a virtual transport,
driven by a scripted broker.  Serves C06 (exactly-once completion, correlation,
framing) and C10 (resend after drop, reconnect/backoff discipline, close).
"""
import struct

from mc import fingerprint as fpmod
from mc.explore import Violation
from mc.world import VClock, VNet

BIG = 0x80000000


def _req_bytes(i, noreply):
    # api key 0, version 0, correlation id i, client id "" -- only [4:8] matters to afkak (log text)
    return struct.pack(">hhih", 0, 0, i, 0) + (b"N" if noreply else b"Q") * (1 + i)


def _resp_bytes(j):
    return struct.pack(">i", j) + b"R" * (2 + j % 7)


class Inst(object):
    """One makeRequest() call."""
    __slots__ = ("rid", "seq", "noreply", "d", "fired", "result", "cancelled", "written", "answered_by",
                 "issued_closed", "cancel_conn", "closes", "cancels")

    def __init__(self, rid, seq, noreply):
        self.rid = rid
        self.seq = seq
        self.noreply = noreply
        self.d = None
        self.fired = 0
        self.result = None
        self.cancelled = False
        self.written = []  # [(cid, index of the frame on that connection)]
        self.answered_by = None
        self.issued_closed = False
        self.cancel_conn = None
        self.cancels = False
        self.closes = False


class BrokerClientHarness(object):
    """cfg keys: ids (list), noreply (list of ids issued with expectResponse=False),
    chunks (bool: offer partial deliveries), ops (subset of op kinds to enable),
    max_reqs (int: total makeRequest calls allowed), policy ("linear")"""

    def __init__(self, cfg):
        from afkak.brokerclient import _KafkaBrokerClient
        from afkak.common import BrokerMetadata

        self.cfg = cfg
        self.clock = VClock()
        self.net = VNet(self.clock)
        self.violations = []
        self._sigs = set()
        self.policy_calls = []

        self.retry_base = cfg.get("retry_base", 0.5)

        def policy(failures):
            self.policy_calls.append(failures)
            return self.retry_base * failures

        self.bc = _KafkaBrokerClient(self.clock, self.net.endpoint_factory, BrokerMetadata(1, "kafka1", 9092),
                                     "clientId", policy)
        self.insts = []  # all request instances, issue order
        self._consumed = set()
        self.prop = cfg.get("prop")
        self.dups = 0
        self.sent_frames = {}  # cid -> list of (frame index, id, bytes, sent_after_n_received)
        self.closed = False
        self.close_d = None
        self.close_fired = 0
        self.conn_gone_at_close_fire = None
        self.big_sent = {}  # cid -> True once a bigframe prefix was queued
        self.big_delivered = set()
        self.consec_failures = 0
        self.expected_attempt_at = None
        self.attempts_seen = 0
        self.dropped_idle = False  # last connection loss happened with nothing pending
        self.events = 0
        self.nontriv = False
        self.outcome_bits = []

    # ------------------------------------------------------------------ helpers
    def viol(self, prop, oracle, sig, msg):
        if oracle == "reactor-callback" and self.prop:
            prop = self.prop
        if self.prop and prop != self.prop:
            return
        if sig in self._sigs:
            return
        self._sigs.add(sig)
        self.violations.append(Violation(oracle, "%s:%s" % (prop, sig), msg))

    def cur_conn(self):
        for c in self.net.conns:
            if c.open:
                return c
        return None

    def pending_insts(self):
        return [x for x in self.insts if not x.fired]

    def _watch(self, inst):
        def cb(res):
            inst.fired += 1
            inst.result = res
            if inst.fired > 1:
                self.viol("C06", "exactly-once", "request-deferred-fired-twice",
                          "request id %d completed %d times" % (inst.rid, inst.fired))
            self._judge_completion(inst)
            if inst.closes and not self.closed:
                self._do_close("")  # application code closing the client from inside the response callback
            if getattr(inst, "cancels", False):
                # application code cancelling its other outstanding requests from inside a completion callback
                for x in self.pending_insts():
                    if x is not inst and not x.cancelled:
                        self._do_cancel("%d.%d" % (x.rid, x.seq))
            return None
        inst.d.addBoth(cb)

    def _judge_completion(self, inst):
        from afkak.common import ClientError
        from twisted.internet.defer import CancelledError
        from twisted.python.failure import Failure
        res = inst.result
        self._note_writes()
        if isinstance(res, Failure):
            if res.check(CancelledError):
                if not inst.cancelled:
                    self.viol("C06", "completion", "cancelled-error-without-cancel",
                              "request id %d failed with CancelledError but was never cancelled" % inst.rid)
            elif res.check(ClientError):
                if not self.closed:
                    self.viol("C06", "completion", "client-error-without-close",
                              "request id %d failed with %r but close() was not called" % (inst.rid, res.value))
            else:
                self.viol("C06", "completion", "unexpected-failure:%s" % res.type.__name__,
                          "request id %d failed with %r (only cancellation or close may fail a request)" % (
                              inst.rid, res.value))
            return
        if inst.cancelled:
            self.viol("C06", "completion", "cancelled-request-succeeds",
                      "request id %d was cancelled but later completed with %r" % (inst.rid, res))
            return
        if inst.noreply:
            if res is not None:
                self.viol("C06", "completion", "noreply-value", "no-reply request completed with %r" % (res,))
            handed = bool(inst.written) or any(_req_bytes(inst.rid, True) in c.discarded_frames
                                               for c in self.net.conns)
            if not handed:
                self.viol("C06", "completion", "noreply-completed-before-write",
                          "no-reply request id %d completed but its bytes were never handed to a connection" % inst.rid)
            return
        # must be the exact bytes of a frame with this id, sent on a connection after the request was written there
        ok = False
        for cid, fidx in inst.written:
            for (k, j, data, after) in self.sent_frames.get(cid, []):
                if j == inst.rid and data == res and after > fidx and (cid, k) not in self._consumed:
                    self._consumed.add((cid, k))
                    inst.answered_by = (cid, k)
                    ok = True
                    break
            if ok:
                break
        if not ok:
            self.viol("C06", "correlation", "response-not-own-frame",
                      "request id %d completed with %r which is not an unconsumed frame carrying its id sent after "
                      "the request was written (written on %r; frames sent %r)" % (
                          inst.rid, res, inst.written, {c: [(k, j, a) for k, j, _d, a in v]
                                                        for c, v in self.sent_frames.items()}))

    # ------------------------------------------------------------------ enabled / apply
    def enabled(self):
        en = []
        ops = self.cfg.get("ops") or ["req", "cancel", "frame", "deliver", "big", "conn", "drop", "timer",
                                      "disconnect", "close"]
        conn = self.cur_conn()
        pend = self.net.pending_attempts()
        if "conn" in ops:
            for a in pend:
                en.append(("accept:%d" % a.aid, (0, 0)))
                en.append(("refuse:%d" % a.aid, (1, 0)))
        if conn is not None:
            if conn.client_closing:
                en.append(("closed", (0, 0)))
            if "deliver" in ops and conn.b2c:
                n = len(conn.b2c)
                en.append(("deliver:all", (0, 0)))
                if self.cfg.get("chunks"):
                    for k in sorted(set(x for x in (1, 3, 4, 6, n - 1) if 0 < x < n)):
                        en.append(("deliver:%d" % k, (0, 1)))
            if "frame" in ops and not conn.client_closing:
                seen = []
                for payload in conn.frames:
                    (j,) = struct.unpack_from(">i", payload, 4)
                    if j not in seen:
                        seen.append(j)
                nsent = len(self.sent_frames.get(conn.cid, []))
                if nsent < self.cfg.get("max_frames", 3):
                    for j in seen:
                        en.append(("frame:%d" % j, (0, 0)))
                    en.append(("frame:99", (1, 0)))
            if "big" in ops and not conn.client_closing and not self.big_sent.get(conn.cid) and \
                    self.cfg.get("big", True):
                en.append(("bigframe", (1, 0)))
            if "drop" in ops:
                en.append(("drop", (1, 0)))
        if self.cfg.get("sync_refuse") and not self.net.sync_refuse and not pend and not self.closed and \
                sum(1 for a in self.net.attempts if getattr(a, "sync", False)) < self.cfg["sync_refuse"]:
            en.append(("syncarm", (1, 0)))  # the next connect() fails synchronously
        if "timer" in ops and self.clock.pending():
            en.append(("timer", (0, 1)))
        if not self.closed or self.cfg.get("ops_after_close", True):
            nreq = len(self.insts)
            if "req" in ops and nreq < self.cfg.get("max_reqs", 3):
                en.append(("req:R", (0, 0)))
                if self.cfg.get("reentrant") and not any(x.closes for x in self.insts) and not self.closed:
                    en.append(("req:C", (0, 1)))  # its completion callback calls close() re-entrantly
                if self.cfg.get("reentrant") and not any(getattr(x, "cancels", False) for x in self.insts) \
                        and not self.closed:
                    en.append(("req:K", (0, 1)))  # its completion callback cancels the other pending requests
                if self.cfg.get("noreply", True):
                    en.append(("req:N", (0, 0)))
                if self.dups < 1:
                    for x in self.pending_insts():
                        en.append(("dup:%d" % x.rid, (0, 1)))
                    # the id of a cancelled request whose reply may still arrive (it was written and the broker
                    # client keeps a tombstone for it) is just as much in flight
                    for x in self.insts:
                        t = self.bc.requests.get(x.rid) if x.cancelled and x.fired else None
                        if t is not None and t.cancelled is not None and conn is not None and not conn.client_closing:
                            en.append(("reuse:%d" % x.rid, (0, 1)))
            if "cancel" in ops:
                for x in self.pending_insts():
                    if not x.cancelled:
                        en.append(("cancel:%d.%d" % (x.rid, x.seq), (0, 1)))
            if "disconnect" in ops and not self.closed and conn is not None and not conn.client_closing:
                en.append(("disconnect", (1, 0)))
            if "close" in ops and not self.closed:
                en.append(("close", (0, 1)))
        return en

    def apply(self, label):
        self.events += 1
        kind, _, arg = label.partition(":")
        pre_attempts = len(self.net.attempts)
        try:
            getattr(self, "_do_" + kind)(arg)
        except Exception as e:  # an exception escaping into the reactor
            import traceback
            self.viol("C06", "reactor-callback", "exception-escapes-callback:%s:%s" % (kind, type(e).__name__),
                      "event %s: %r escaped from afkak into the reactor\n%s" % (label, e, traceback.format_exc()[-900:]))
        self._after(label, pre_attempts)

    # ---- app operations
    def _do_req(self, arg):
        """makeRequest with a fresh correlation id (the real client never reuses ids)."""
        from afkak.common import ClientError
        from twisted.python.failure import Failure
        noreply = arg == "N"
        rid = len(self.insts) + 1
        inst = Inst(rid, len(self.insts), noreply)
        inst.closes = arg == "C"
        inst.cancels = arg == "K"
        d = self.bc.makeRequest(rid, _req_bytes(rid, noreply), expectResponse=not noreply)
        inst.d = d
        inst.issued_closed = self.closed
        self.insts.append(inst)
        self._note_writes()
        self._watch(inst)
        if self.closed:
            if not (inst.fired and isinstance(inst.result, Failure) and inst.result.check(ClientError)):
                self.viol("C10", "close", "request-after-close-not-failed",
                          "makeRequest after close(): fired=%r result=%r" % (inst.fired, inst.result))

    def _do_reuse(self, arg):
        """Re-using the id of a cancelled request while its reply can still arrive would hand that reply to the
        new request ("a response is never delivered to a different request"): it must be refused."""
        from afkak.common import DuplicateRequestError
        rid = int(arg)
        self.dups += 1
        before = self.fingerprint_sut()
        try:
            d = self.bc.makeRequest(rid, _req_bytes(rid, False))
        except DuplicateRequestError:
            if self.fingerprint_sut() != before:
                self.viol("C06", "duplicate-id", "refused-duplicate-changed-state",
                          "makeRequest(%d) raised DuplicateRequestError but changed the broker client's state" % rid)
            return
        d.addErrback(lambda f: None)
        self.viol("C06", "duplicate-id", "cancelled-inflight-id-reused",
                  "makeRequest(%d) accepted while the reply to a cancelled request with the same id can still "
                  "arrive on the connection: that reply would complete the new request" % rid)

    def _do_dup(self, arg):
        """Re-using the id of a pending request must be refused and change nothing."""
        from afkak.common import DuplicateRequestError
        rid = int(arg)
        self.dups += 1
        before = self.fingerprint_sut()
        try:
            d = self.bc.makeRequest(rid, _req_bytes(rid, False))
        except DuplicateRequestError:
            if self.fingerprint_sut() != before:
                self.viol("C06", "duplicate-id", "refused-duplicate-changed-state",
                          "makeRequest(%d) raised DuplicateRequestError but changed the broker client's state" % rid)
            return
        d.addErrback(lambda f: None)
        self.viol("C06", "duplicate-id", "inflight-id-reused-silently",
                  "makeRequest(%d) accepted while a request with the same id is still pending" % rid)

    def _do_cancel(self, arg):
        rid, _, seq = arg.partition(".")
        inst = self.insts[int(seq)]
        inst.cancelled = True
        c = self.cur_conn()
        inst.cancel_conn = None if c is None else c.cid
        inst.d.cancel()
        if not inst.fired:
            self.viol("C06", "completion", "cancel-does-not-complete", "cancel() left request %s pending" % arg)

    def _do_disconnect(self, arg):
        self.bc.disconnect()

    def _do_close(self, arg):
        pend = self.pending_insts()
        had_attempt = bool(self.net.pending_attempts())
        self.closed = True
        try:
            d = self.bc.close()
        except Exception as e:
            import traceback
            self.viol("C06", "completion", "close-raises:%s" % type(e).__name__,
                      "close() raised %r (pending requests: %r)\n%s" % (
                          e, [x.rid for x in self.pending_insts()], traceback.format_exc()[-600:]))
            self.viol("C10", "close", "close-raises:%s" % type(e).__name__, "close() raised %r" % (e,))
            return
        self.close_d = d

        def fired(res):
            self.close_fired += 1
            self.conn_gone_at_close_fire = self.cur_conn() is None and not self.net.pending_attempts()
            return None
        d.addBoth(fired)
        for x in pend:
            if not x.fired:
                self.viol("C10", "close", "pending-request-survives-close",
                          "request id %d still pending after close() returned" % x.rid)
        if had_attempt and self.net.pending_attempts():
            self.viol("C10", "close", "attempt-not-cancelled-by-close",
                      "close() left a connection attempt pending")

    # ---- network / broker events
    def _do_accept(self, arg):
        a = self.net.attempts[int(arg)]
        pre_pending = [x for x in self.insts if not x.fired and not x.cancelled]
        conn = self.net.accept(a, "broker")
        self.consec_failures = 0
        self.expected_attempt_at = None
        self._note_writes()
        if self.closed:
            if not conn.client_closing:
                self.viol("C10", "close", "connection-kept-after-close",
                          "a connection established after close() was not closed at once")
            if conn.frames:
                self.viol("C10", "close", "bytes-written-after-close", "requests written after close()")
            return
        # C10: exactly the unanswered, uncancelled requests, in issue order, each once
        want = [_req_bytes(x.rid, x.noreply) for x in pre_pending]
        if list(conn.frames) != want:
            self.viol("C10", "resend", "resend-set-or-order-wrong",
                      "on connect the broker received ids %r, expected the pending requests in issue order %r" % (
                          [struct.unpack_from(">i", f, 4)[0] for f in conn.frames],
                          [x.rid for x in pre_pending]))

    def _do_refuse(self, arg):
        a = self.net.attempts[int(arg)]
        self.net.refuse(a)
        if not self.closed:
            self.consec_failures += 1
            self.expected_attempt_at = self.clock.seconds() + self.retry_base * self.consec_failures

    def _do_syncarm(self, arg):
        self.net.sync_refuse = 1

    def _do_frame(self, arg):
        j = int(arg)
        conn = self.cur_conn()
        data = _resp_bytes(j)
        lst = self.sent_frames.setdefault(conn.cid, [])
        lst.append((len(lst), j, data, len(conn.frames)))
        conn.b2c += struct.pack(">I", len(data)) + data

    def _do_bigframe(self, arg):
        conn = self.cur_conn()
        # total bytes that must have been delivered on this connection for the prefix to be complete
        self.big_sent[conn.cid] = getattr(conn, "_delivered", 0) + len(conn.b2c) + 4
        conn.b2c += struct.pack(">I", BIG) + b"garbage!"

    def _do_deliver(self, arg):
        conn = self.cur_conn()
        n = len(conn.b2c) if arg == "all" else int(arg)
        total_before = getattr(conn, "_delivered", 0)
        conn._delivered = total_before + n
        conn.deliver(n)
        need = self.big_sent.get(conn.cid)
        if need and conn._delivered >= need and conn.cid not in self.big_delivered:
            self.big_delivered.add(conn.cid)
            if not conn.client_closing:
                self.viol("C06", "framing", "impossible-length-not-terminated",
                          "a frame announcing %d bytes was delivered and the connection was not closed" % BIG)

    def _do_drop(self, arg):
        from twisted.internet import error
        conn = self.cur_conn()
        self._lose(conn, error.ConnectionLost("dropped by virtual network"))

    def _do_closed(self, arg):
        from twisted.internet import error
        conn = self.cur_conn()
        self._lose(conn, error.ConnectionDone("closed cleanly"))

    def _lose(self, conn, reason):
        pend = [x for x in self.insts if not x.fired and not x.cancelled]
        self.dropped_idle = not pend
        n_attempts = len(self.net.attempts)
        conn.close(reason)
        if self.closed:
            return
        if pend and len(self.net.attempts) == n_attempts:
            self.viol("C10", "reconnect", "no-reconnect-with-pending-requests",
                      "connection lost with %d unanswered requests and no connection attempt was started" % len(pend))
        if not pend and len(self.net.attempts) != n_attempts:
            self.viol("C10", "reconnect", "idle-connection-reopened",
                      "connection lost with nothing pending, yet a new connection attempt was made")

    def _do_timer(self, arg):
        self.clock.fire_next()

    # ------------------------------------------------------------------ bookkeeping after every event
    def _note_writes(self):
        """Attribute newly received request frames to request instances (issue order)."""
        for conn in self.net.conns:
            seen = getattr(conn, "_attributed", 0)
            while seen < len(conn.frames):
                payload = conn.frames[seen]
                (rid,) = struct.unpack_from(">i", payload, 4)
                cands = [x for x in self.insts if x.rid == rid and not any(c == conn.cid for c, _ in x.written)]
                # attribute to the oldest instance of that id not yet written on this connection that could
                # legitimately be written now (pending); otherwise to the oldest (a violation is raised below)
                live = [x for x in cands if not x.cancelled and (not x.fired or (x.noreply and not x.written))]
                target = (live or cands or [None])[0]
                if target is not None:
                    target.written.append((conn.cid, seen))
                    if target.cancelled or (target.fired and not target.noreply):
                        self.viol("C10", "resend", "completed-or-cancelled-request-written",
                                  "request id %d (cancelled=%r, completed=%r) was written to connection %d" % (
                                      rid, target.cancelled, bool(target.fired), conn.cid))
                    if target.noreply and sum(1 for _c, _i in target.written) > 1:
                        self.viol("C10", "resend", "noreply-request-resent",
                                  "no-reply request id %d was written more than once" % rid)
                else:
                    self.viol("C10", "resend", "unknown-request-written",
                              "bytes for request id %d written but no such request instance exists" % rid)
                seen += 1
            conn._attributed = seen

    def _after(self, label, pre_attempts):
        self._note_writes()
        # new connection attempts: timing and legitimacy
        for a in self.net.attempts[pre_attempts:]:
            t = [j for j in self.net.journal if j[0] == "attempt" and j[1] == a.aid][0][4]
            if self.closed:
                self.viol("C10", "close", "attempt-after-close", "connection attempt %d made after close()" % a.aid)
            if self.expected_attempt_at is not None:
                if abs(t - self.expected_attempt_at) > 1e-9:
                    self.viol("C10", "backoff", "backoff-delay-wrong",
                              "attempt after %d consecutive failures made at t=%.3f, expected t=%.3f "
                              "(retryPolicy(k)=%sk; policy was asked %r)" % (
                                  self.consec_failures, t, self.expected_attempt_at, self.retry_base,
                                  self.policy_calls))
                self.expected_attempt_at = None
            if getattr(a, "sync", False) and not self.closed:
                self.consec_failures += 1
                self.expected_attempt_at = t + self.retry_base * self.consec_failures
        # one request per connection at most once (answered / earlier written ones never reappear)
        for conn in self.net.conns:
            ids = [struct.unpack_from(">i", f, 4)[0] for f in conn.frames]
            for x in self.insts:
                n = sum(1 for c, _i in x.written if c == conn.cid)
                if n > 1:
                    self.viol("C10", "resend", "request-written-twice-on-one-connection",
                              "request id %d written %d times on connection %d (ids %r)" % (x.rid, n, conn.cid, ids))
        # close deferred discipline
        if self.close_fired > 1:
            self.viol("C10", "close", "close-deferred-fired-twice", "close() Deferred fired %d times" % self.close_fired)
        if self.close_fired and self.conn_gone_at_close_fire is False:
            self.viol("C10", "close", "close-deferred-fired-before-connection-gone",
                      "close() Deferred fired while the connection (or an attempt) was still there")
        if self.closed and not self.close_fired and self.cur_conn() is None and not self.net.pending_attempts():
            self.viol("C10", "close", "close-deferred-never-fires",
                      "client closed, no connection or attempt left, but the close() Deferred has not fired")
        # pending requests must be justified (C06 liveness-flavoured invariant, C10 reconnect clause)
        if not self.closed:
            conn = self.cur_conn()
            for x in self.pending_insts():
                if x.cancelled:
                    continue
                if conn is not None:
                    if any(c == conn.cid for c, _ in x.written) or conn.client_closing:
                        continue
                    self.viol("C10", "resend", "pending-request-not-on-live-connection",
                              "request id %d is pending, a connection is up, but it was never written there" % x.rid)
                elif not self.net.pending_attempts() and not self.clock.pending():
                    self.viol("C10", "reconnect", "pending-request-without-connection-attempt-or-timer",
                              "request id %d is pending but there is no connection, no attempt and no backoff timer"
                              % x.rid)
                    self.viol("C06", "completion", "request-can-never-complete",
                              "request id %d is pending but there is no connection, no connection attempt and no "
                              "timer: nothing can ever complete it" % x.rid)

    # ------------------------------------------------------------------ explorer protocol
    def finish(self, horizon):
        pass

    def outcome(self):
        return tuple((x.rid, x.noreply, x.fired, type(getattr(x.result, "value", x.result)).__name__, x.cancelled,
                      len(x.written)) for x in self.insts) + (self.closed, self.close_fired,
                                                              len(self.net.attempts), tuple(self.outcome_bits))

    def nontrivial(self):
        return len(self.net.conns) > 1 or any(x.cancelled for x in self.insts) or self.closed or \
            len(self.net.attempts) > 1 or bool(self.big_sent)

    def fingerprint_sut(self):
        ignore = [self.net] + list(self.net.conns) + [self.clock] + list(self.net.attempts)
        return fpmod.fingerprint(self.bc, now=self.clock.seconds(), ignore=ignore)

    def fingerprint(self):
        conns = []
        for c in self.net.conns:
            if c.open:
                ids = [struct.unpack_from(">i", f, 4)[0] for f in c.frames]
                conns.append((c.client_closing, ids, bytes(c.b2c), bytes(c.c2b),
                              [(j, a) for _k, j, _d, a in self.sent_frames.get(c.cid, [])],
                              self.big_sent.get(c.cid), getattr(c, "_delivered", 0) if self.big_sent.get(c.cid) else 0))
        insts = [(x.rid, x.noreply, x.closes, getattr(x, "cancels", False), x.fired, x.cancelled, type(getattr(x.result, "value", x.result)).__name__,
                  x.written[-1:] if not x.fired else None) for x in self.insts]
        mon = (insts, self.dups, self.closed, self.close_fired, self.consec_failures,
               None if self.expected_attempt_at is None else round(self.expected_attempt_at - self.clock.seconds(), 9),
               len(self.net.pending_attempts()), sorted(self._sigs), len(self.net.conns), self.net.sync_refuse,
               sum(1 for a in self.net.attempts if getattr(a, "sync", False)))
        ignore = [self.net] + list(self.net.conns) + [self.clock] + list(self.net.attempts)
        calls = [(round(c.getTime() - self.clock.seconds(), 9)) for c in self.clock.pending()]
        return fpmod.fingerprint((self.bc, conns, mon, calls), now=self.clock.seconds(), ignore=ignore)


class BootstrapProtocolHarness(object):
    """The ephemeral bootstrap connection's protocol (KafkaBootstrapProtocol) under the same alphabet: requests
    with fresh ids, frames for any seen / unknown id in any order, arbitrary chunking, impossible length, loss."""

    def __init__(self, cfg):
        from afkak._protocol import KafkaBootstrapProtocol
        from mc.world import Connection
        self.cfg = cfg
        self.clock = VClock()
        self.net = VNet(self.clock)
        self.conn = Connection(self.net, 0, "kafka1", 9092, "bootstrap")
        self.net.conns.append(self.conn)
        self.proto = KafkaBootstrapProtocol()
        self.conn.proto = self.proto
        self.proto.makeConnection(self.conn.transport)
        self.violations = []
        self._sigs = set()
        self.reqs = []  # [rid, d, fired, result]
        self.sent = []  # (frame index, id, bytes)
        self.consumed = set()
        self.big_need = None
        self.delivered = 0
        self.lost = False

    def viol(self, oracle, sig, msg):
        if sig not in self._sigs:
            self._sigs.add(sig)
            self.violations.append(Violation(oracle, "C06:bootstrap:%s" % sig, msg))

    def enabled(self):
        en = []
        if not self.lost:
            if len(self.reqs) < self.cfg.get("max_reqs", 3):
                en.append(("req", (0, 0)))
            if self.conn.client_closing:
                en.append(("closed", (0, 0)))
            if self.conn.b2c:
                n = len(self.conn.b2c)
                en.append(("deliver:all", (0, 0)))
                for k in sorted(set(x for x in (1, 3, 4, 6, n - 1) if 0 < x < n)):
                    en.append(("deliver:%d" % k, (0, 1)))
            if len(self.sent) < self.cfg.get("max_frames", 4) and not self.conn.client_closing:
                for r in self.reqs:
                    en.append(("frame:%d" % r[0], (0, 0)))
                en.append(("frame:99", (1, 0)))
                if self.big_need is None:
                    en.append(("bigframe", (1, 0)))
            en.append(("drop", (1, 0)))
        elif len(self.reqs) < self.cfg.get("max_reqs", 3):
            en.append(("req", (0, 0)))
        return en

    def apply(self, label):
        from twisted.internet import error
        from twisted.python.failure import Failure
        kind, _, arg = label.partition(":")
        try:
            if kind == "req":
                rid = len(self.reqs) + 1
                rec = [rid, None, 0, None]
                self.reqs.append(rec)
                d = self.proto.request(_req_bytes(rid, False))
                rec[1] = d

                def fired(res, rec=rec):
                    rec[2] += 1
                    rec[3] = res
                    if rec[2] > 1:
                        self.viol("exactly-once", "request-fired-twice", "request %d fired twice" % rec[0])
                    self.judge(rec)
                    return None
                d.addBoth(fired)
                if self.lost and not (rec[2] and isinstance(rec[3], Failure)):
                    self.viol("completion", "request-after-loss-not-failed",
                              "request() after connectionLost did not fail at once")
            elif kind == "frame":
                j = int(arg)
                data = _resp_bytes(j)
                self.sent.append((len(self.sent), j, data))
                self.conn.b2c += struct.pack(">I", len(data)) + data
            elif kind == "bigframe":
                self.big_need = self.delivered + len(self.conn.b2c) + 4
                self.conn.b2c += struct.pack(">I", BIG) + b"garbage!"
            elif kind == "deliver":
                n = len(self.conn.b2c) if arg == "all" else int(arg)
                self.delivered += n
                unknown_before = self._unknown_frames_complete()
                self.conn.deliver(n)
                if self.big_need and self.delivered >= self.big_need and not self.conn.client_closing:
                    self.viol("framing", "impossible-length-not-terminated",
                              "a frame announcing 2^31 bytes was delivered and the connection was not closed")
                if self._unknown_frames_complete() > unknown_before and not self.conn.client_closing:
                    self.viol("correlation", "unknown-id-frame-not-rejected",
                              "a complete frame with an unknown correlation id was delivered and the connection "
                              "was not dropped")
            elif kind in ("drop", "closed"):
                self.lost = True
                self.conn.close(error.ConnectionLost("lost") if kind == "drop" else error.ConnectionDone("done"))
                for rec in self.reqs:
                    if not rec[2]:
                        self.viol("completion", "request-pending-after-connection-lost",
                                  "request %d still pending after connectionLost" % rec[0])
        except Exception as e:
            import traceback
            self.viol("reactor-callback", "exception-escapes-callback:%s:%s" % (kind, type(e).__name__),
                      "event %s: %r\n%s" % (label, e, traceback.format_exc()[-800:]))

    def _unknown_frames_complete(self):
        """Number of unknown-id frames completely delivered so far."""
        pos = 0
        n = 0
        for (_k, j, data) in self.sent:
            end = pos + 4 + len(data)
            if self.big_need is not None and end > self.big_need - 4:
                break
            if end <= self.delivered and j == 99:
                n += 1
            pos = end
        return n

    def judge(self, rec):
        from twisted.python.failure import Failure
        res = rec[3]
        if isinstance(res, Failure):
            if not (self.lost or self.conn.client_closing):
                self.viol("completion", "request-fails-on-live-connection",
                          "request %d failed with %r while the connection is up" % (rec[0], res.value))
            return
        ok = False
        for (k, j, data) in self.sent:
            if j == rec[0] and data == res and k not in self.consumed:
                self.consumed.add(k)
                ok = True
                break
        if not ok:
            self.viol("correlation", "response-not-own-frame",
                      "request %d completed with %r; frames sent %r" % (rec[0], res, [(k, j) for k, j, _d in
                                                                                        self.sent]))

    def finish(self, horizon):
        pass

    def outcome(self):
        return tuple((r[0], r[2], type(getattr(r[3], "value", r[3])).__name__) for r in self.reqs) + (self.lost,)

    def nontrivial(self):
        return self.lost or self.big_need is not None or any(j == 99 for _k, j, _d in self.sent)

    def fingerprint(self):
        mon = ([(r[0], r[2], type(getattr(r[3], "value", r[3])).__name__) for r in self.reqs],
               [(j) for _k, j, _d in self.sent], sorted(self.consumed), self.big_need, self.delivered, self.lost,
               bytes(self.conn.b2c), self.conn.client_closing, sorted(self._sigs))
        return fpmod.fingerprint((self.proto, mon), now=0.0, ignore=[self.net, self.conn, self.clock])
