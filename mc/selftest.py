"""Determinism self-test (DESIGN.md section 2.5): a representative schedule of every harness
is executed twice in this process and once in a fresh process; the full observation
(labels taken, alternatives offered, outcome, violations, state fingerprint) must be identical.
Also validates the reference codec and the fingerprint's sensitivity."""
import hashlib
import json
import subprocess
import sys

from mc import bootstrap

CASES = [
    ("harness.brokerclient:BrokerClientHarness", {"prop": "C06", "chunks": True, "max_reqs": 2},
     ["req:R", "accept:0", "req:N", "frame:1", "deliver:3", "drop", "accept:1", "frame:1", "deliver:all", "close",
      "closed"]),
    ("harness.producer:ProducerWorld",
     {"prop": "C09", "cluster": {"brokers": [1, 2], "topics": {"t": {"0": 1, "1": 2}}}, "discovery": True,
      "producer": {"acks": 1, "max_req_attempts": 3, "codec": 1},
      "script": [["send", "t", None, ["a0"]], ["send", "t", "k", ["b0", "b1"]]],
      "menu": {"err": {"0": [6]}, "drop": True, "timer_early": True}}, None),
    ("harness.consumer:ConsumerWorld",
     {"prop": "C03", "cluster": {"brokers": [1, 2], "topics": {"t": {"0": 1}}, "coordinator": 2}, "discovery": False,
      "log": [["base", 10], ["p", "k0", "v0"], ["w", 1, [["a", "w1"], ["b", "w2"]]], ["p", "k3", "v3"]], "magic": 0,
      "start": "committed", "stored": 10, "group": True, "processor": "async",
      "consumer": {"buffer_size": 90, "auto_commit_every_n": 1, "auto_commit_every_ms": 0},
      "script": [["start"], ["shutdown", {"delivered": 3}]], "menu": {"crash": 1, "drop": True}}, None),
    ("harness.client:ApiWorld",
     {"prop": "C20", "cluster": {"brokers": [1, 2, 3], "topics": {"t": {"0": 1, "1": 2}, "u": {"0": 3}}},
      "discovery": False, "timeout_ms": 2000,
      "script": [["call", "produce", [["t", 0, ["a"]], ["u", 0, ["b"]]], {"foe": False}], ["close"],
                 ["call", "metadata", []]], "menu": {"reorder": True}}, None),
    ("harness.group:GroupWorld",
     {"prop": "C16", "cluster": {"brokers": [1, 2], "topics": {"t": {"0": 1, "1": 2}}, "coordinator": 2},
      "discovery": False, "timeout_ms": 5000, "topics": ["t"], "logs": {"t/0": 2, "t/1": 1},
      "group": {"leader": "phantom", "phantom_topics": ["t"], "phantom_active": True}, "processor": "sync",
      "script": [["start"], ["stop", {"consumed": True}]], "menu": {"cluster_events": [["phantom_leaves", "grp"]]}},
     None),
]


def observe(spec, cfg, labels):
    from mc import explore
    factory = explore.load_factory(spec)
    if labels is None:
        x, h = explore.run_one(factory, cfg, [], max_steps=400, want_fp=True)
        obs = (x.labels, [[a for a, _c in alts] for alts in x.alts], repr(x.outcome),
               sorted(v.signature for v in x.violations), x.fp)
    else:
        h = factory(cfg)
        alts = []
        for lab in labels:
            en = [a for a, _c in h.enabled()]
            alts.append(en)
            assert lab in en, "selftest schedule: %r not enabled in %r" % (lab, en)
            h.apply(lab)
        h.finish(False)
        obs = (labels, alts, repr(h.outcome()), sorted(v.signature for v in h.violations), h.fingerprint())
    return hashlib.sha256(json.dumps(obs, sort_keys=True, default=repr).encode()).hexdigest()


def digests():
    return [observe(*c) for c in CASES]


def main():
    bootstrap.init()
    if len(sys.argv) > 1 and sys.argv[1] == "--child":
        print(json.dumps(digests()))
        return 0
    from ref import refkafka
    refkafka.selftest()
    a = digests()
    b = digests()
    if a != b:
        print("SELFTEST FAILED: two executions of the same schedules in one process differ: %r %r" % (a, b))
        return 1
    out = subprocess.check_output([sys.executable, "-W", "ignore", "-m", "mc.selftest", "--child"])
    c = json.loads(out.decode().strip().splitlines()[-1])
    if a != c:
        print("SELFTEST FAILED: a fresh process observes something else: %r %r" % (a, c))
        return 1
    # the fingerprint must notice a flipped flag (it is a walk of the whole object graph)
    from mc import explore
    f = explore.load_factory(CASES[0][0])
    h = f(CASES[0][1])
    for lab in CASES[0][2][:4]:
        h.enabled()
        h.apply(lab)
    fp1 = h.fingerprint()
    list(h.bc.requests.values())[0].expectResponse ^= True
    if h.fingerprint() == fp1:
        print("SELFTEST FAILED: fingerprint blind to a flipped request flag")
        return 1
    print("selftest ok: %d harness schedules identical twice in-process and in a fresh process" % len(CASES))
    return 0


if __name__ == "__main__":
    sys.exit(main())
