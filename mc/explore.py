"""Explicit-state exploration of real afkak objects (DESIGN.md section 2.4).

Two algorithms over the same harness interface:

(A) `dfs`  -- stateless, replay-from-scratch, deviation-bounded depth-first
    search.  A schedule is a list of event labels; the default choice at each
    point is alternative 0 and costs nothing, every other alternative costs
    (faults, schedule) deviations.  Every execution runs to quiescence or to
    the harness horizon.
(B) `bfs`  -- depth-bounded breadth-first search over event histories with
    state fingerprints (a state *is* the history that reaches it; live Twisted
    objects cannot be copied, so histories are replayed on fresh objects).

Harness interface (duck-typed):
    h = factory(cfg)
    h.enabled()   -> list of (label, (fault_cost, sched_cost)); [] = terminal
    h.apply(label)
    h.finish(horizon_hit)         end-of-run obligations
    h.violations  -> list of Violation
    h.outcome()   -> hashable summary of the observable outcome
    h.nontrivial()-> bool
    h.fingerprint() (BFS only)
"""
import hashlib
import importlib
import json
import multiprocessing
import os
import random
import time
import traceback


class ReplayDivergence(Exception):
    pass


class Violation(object):
    __slots__ = ("oracle", "signature", "message")

    def __init__(self, oracle, signature, message):
        self.oracle = oracle
        self.signature = signature
        self.message = message

    def as_dict(self):
        return {"oracle": self.oracle, "signature": self.signature, "message": self.message}


class Exec(object):
    __slots__ = ("labels", "costs", "alts", "violations", "outcome", "nontrivial", "horizon", "steps", "fp")


def load_factory(spec):
    """spec = 'package.module:ClassName'"""
    mod, _, name = spec.partition(":")
    return getattr(importlib.import_module(mod), name)


def run_one(factory, cfg, prefix, max_steps=400, want_fp=False):
    h = factory(cfg)
    x = Exec()
    x.labels, x.costs, x.alts = [], [], []
    x.horizon = False
    n = 0
    while True:
        en = h.enabled()
        if not en:
            break
        if n >= max_steps:
            x.horizon = True
            break
        if n < len(prefix):
            lab = prefix[n]
            cost = None
            for l, c in en:
                if l == lab:
                    cost = c
                    break
            if cost is None:
                raise ReplayDivergence("step %d: label %r not enabled; enabled=%r; prefix=%r" % (
                    n, lab, [l for l, _ in en], list(prefix)))
        else:
            lab, cost = en[0]
        x.alts.append(en)
        x.labels.append(lab)
        x.costs.append(cost)
        h.apply(lab)
        n += 1
    if n < len(prefix):
        raise ReplayDivergence("run ended after %d steps, prefix has %d: %r" % (n, len(prefix), list(prefix)))
    h.finish(x.horizon)
    x.steps = n
    x.violations = list(h.violations)
    x.outcome = h.outcome()
    x.nontrivial = bool(h.nontrivial())
    x.fp = h.fingerprint() if want_fp else None
    return x, h


def _digest(obj):
    return hashlib.blake2b(repr(obj).encode("utf-8", "backslashreplace"), digest_size=8).hexdigest()


class Stats(object):
    def __init__(self):
        self.executions = 0
        self.transitions = 0
        self.nodes = 0
        self.horizon_hits = 0
        self.outcomes = set()
        self.nontrivial_outcomes = set()
        self.violations = []  # dicts
        self.samples = []
        self.max_len = 0
        self.capped = False
        self.end_states = set()
        self.by_devs = {}

    def merge(self, o):
        self.executions += o.executions
        self.transitions += o.transitions
        self.nodes += o.nodes
        self.horizon_hits += o.horizon_hits
        self.outcomes |= o.outcomes
        self.nontrivial_outcomes |= o.nontrivial_outcomes
        self.violations.extend(o.violations)
        for s in o.samples:
            if len(self.samples) < 12:
                self.samples.append(s)
        self.max_len = max(self.max_len, o.max_len)
        self.capped = self.capped or o.capped
        self.end_states |= o.end_states
        for k, v in o.by_devs.items():
            self.by_devs[k] = self.by_devs.get(k, 0) + v


def _fits(c, bound):
    F, S = bound[0], bound[1]
    T = bound[2] if len(bound) > 2 else None
    if c[0] > F or c[1] > S:
        return False
    if T is not None and c[0] + c[1] > T:
        return False
    return True


def dfs(factory_spec, cfg, bound, prefix=(), max_steps=400, cap=None, recurse=True, keep_samples=2,
        max_violations=20, want_fp=False):
    """Explore every schedule extending `prefix` whose deviation cost fits `bound`.

    Returns (Stats, children) where children is [] when recurse is True.
    """
    factory = load_factory(factory_spec)
    st = Stats()
    stack = [list(prefix)]
    children = []
    while stack:
        if cap is not None and st.executions >= cap:
            st.capped = True
            break
        p = stack.pop()
        try:
            x, _h = run_one(factory, cfg, p, max_steps, want_fp=want_fp)
        except ReplayDivergence as e:
            st.violations.append({"oracle": "HARNESS", "signature": "replay-divergence", "message": str(e),
                                  "cfg": cfg, "labels": list(p), "harness": factory_spec})
            continue
        st.executions += 1
        st.transitions += x.steps
        st.nodes += x.steps - len(p) + (1 if not p else 0)
        st.max_len = max(st.max_len, x.steps)
        if x.horizon:
            st.horizon_hits += 1
        od = _digest(x.outcome)
        st.outcomes.add(od)
        if x.nontrivial:
            st.nontrivial_outcomes.add(od)
        if x.fp is not None:
            st.end_states.add(x.fp)
        spent_f = spent_s = 0
        for c in x.costs:
            spent_f += c[0]
            spent_s += c[1]
        key = "%d,%d" % (spent_f, spent_s)
        st.by_devs[key] = st.by_devs.get(key, 0) + 1
        if len(st.samples) < keep_samples and (p or not st.samples):
            st.samples.append({"cfg": cfg, "schedule": x.labels, "deviations": [spent_f, spent_s]})
        for v in x.violations:
            if len(st.violations) < max_violations:
                st.violations.append({"oracle": v.oracle, "signature": v.signature, "message": v.message,
                                      "cfg": cfg, "labels": list(x.labels), "harness": factory_spec,
                                      "max_steps": max_steps})
        if x.violations and _should_stop(st):
            st.capped = True
            break
        # children: deviate at every point after the prefix
        f = s = 0
        # a run that did not terminate is reported by the harness; do not fan out over its (cyclic) tail
        limit = len(x.labels) if not x.horizon else min(len(x.labels), len(p) + 40)
        for i in range(limit):
            if i >= len(p):
                for lab, c in x.alts[i][1:]:
                    cc = (f + c[0], s + c[1])
                    if _fits(cc, bound):
                        child = x.labels[:i] + [lab]
                        if recurse:
                            stack.append(child)
                        else:
                            children.append(child)
            f += x.costs[i][0]
            s += x.costs[i][1]
    return st, children


# Early stop: once a few violations that are not listed as known findings have been found, the remaining work
# units are abandoned (the verdict is already "violation"; on a broken tree many runs only end at the horizon
# and exploring all of them would take very long).  The runner installs the predicate.
EARLY_STOP = None
EARLY_STOP_AFTER = 3


def _should_stop(st):
    if EARLY_STOP is None:
        return False
    n = 0
    for v in st.violations:
        if v.get("oracle") != "HARNESS" and EARLY_STOP(v):
            n += 1
    return n >= EARLY_STOP_AFTER


# ---- parallel driver -------------------------------------------------------
def _task(args):
    factory_spec, cfg, bound, prefix, max_steps, cap, want_fp = args
    from mc import bootstrap
    bootstrap.init()
    try:
        st, _ = dfs(factory_spec, cfg, bound, prefix, max_steps, cap, True, want_fp=want_fp)
        return st
    except Exception:
        st = Stats()
        st.violations.append({"oracle": "HARNESS", "signature": "harness-exception",
                              "message": traceback.format_exc(), "cfg": cfg, "labels": list(prefix),
                              "harness": factory_spec})
        return st


_pool = None


def pool(workers=None):
    global _pool
    if _pool is None:
        workers = workers or int(os.environ.get("VERIF_WORKERS", "0")) or min(16, os.cpu_count() or 1)
        ctx = multiprocessing.get_context("fork")
        _pool = ctx.Pool(workers)
    return _pool


def close_pool():
    global _pool
    if _pool is not None:
        _pool.close()
        _pool.join()
        _pool = None


def explore_configs(factory_spec, cfgs, bound, max_steps=400, cap_per_task=None, seed=0, split=True,
                    want_fp=False, deadline=None):
    """DFS over many configurations in parallel.  Work unit = (cfg, first-level
    alternative).  `seed` only permutes the order in which units are handed out."""
    global _pool
    total = Stats()
    tasks = []
    for cfg in cfgs:
        if split:
            st, children = dfs(factory_spec, cfg, bound, (), max_steps, None, recurse=False, want_fp=want_fp)
            total.merge(st)
            if _should_stop(total):
                total.capped = True
                return total
            for ch in children:
                tasks.append((factory_spec, cfg, bound, ch, max_steps, cap_per_task, want_fp))
        else:
            tasks.append((factory_spec, cfg, bound, (), max_steps, cap_per_task, want_fp))
    random.Random(seed).shuffle(tasks)
    if not tasks:
        return total
    p = pool()
    chunk = max(1, len(tasks) // (16 * 8))
    for st in p.imap_unordered(_task, tasks, chunksize=chunk):
        total.merge(st)
        if _should_stop(total):
            total.capped = True
            total.stopped_early = True
            p.terminate()
            _pool = None
            break
        if deadline is not None and time.time() > deadline:
            total.capped = True
            p.terminate()
            _pool = None
            break
    return total


# ---- BFS -------------------------------------------------------------------
def _bfs_expand(args):
    factory_spec, cfg, hists, max_steps = args
    from mc import bootstrap
    bootstrap.init()
    factory = load_factory(factory_spec)
    out = []  # (hist, fp, violations, terminal, outcome_digest, nontrivial)
    trans = 0
    for hist in hists:
        h = factory(cfg)
        for lab in hist:
            h.apply(lab)
        en = h.enabled()
        for lab, _c in en:
            h2 = factory(cfg)
            hh = hist + [lab]
            try:
                for l in hh:
                    # labels must stay enabled on replay (determinism check)
                    h2.apply(l)
                h2.finish(False)
                fp = h2.fingerprint() if not cfg.get("_no_dedupe") else "H" + _digest(hh)
                vio = [dict(v.as_dict(), cfg=cfg, labels=hh, harness=factory_spec) for v in h2.violations]
                out.append((hh, fp, vio, _digest(h2.outcome()), bool(h2.nontrivial())))
            except Exception:
                out.append((hh, "ERR" + _digest(hh), [{"oracle": "HARNESS", "signature": "harness-exception",
                                                      "message": traceback.format_exc(), "cfg": cfg,
                                                      "labels": hh, "harness": factory_spec}], "err", False))
            trans += len(hh)
    return out, trans


def bfs(factory_spec, cfg, depth, seed=0, max_states=None, max_violations=20):
    """Breadth-first search to `depth` events with fingerprint de-duplication."""
    from mc import bootstrap
    bootstrap.init()
    from mc import scan
    audit_ok, _note = scan.audit()
    if not audit_ok:
        # unknown suspended-iterator state: never merge two histories (still exhaustive, only slower)
        cfg = dict(cfg, _no_dedupe=True)
    factory = load_factory(factory_spec)
    st = Stats()
    h0 = factory(cfg)
    h0.finish(False)
    seen = {h0.fingerprint()}
    frontier = [[]]
    edges = 0
    completed_depth = 0
    p = pool()
    for d in range(depth):
        if not frontier:
            break
        random.Random(seed + d).shuffle(frontier)
        nchunks = min(len(frontier), 16 * 4)
        chunks = [frontier[i::nchunks] for i in range(nchunks)]
        nxt = []
        for out, trans in p.imap_unordered(_bfs_expand, [(factory_spec, cfg, c, 0) for c in chunks]):
            st.transitions += trans
            for hh, fp, vio, od, nontriv in out:
                edges += 1
                st.executions += 1
                st.outcomes.add(od)
                if nontriv:
                    st.nontrivial_outcomes.add(od)
                for v in vio:
                    if len(st.violations) < max_violations:
                        st.violations.append(v)
                if fp not in seen:
                    seen.add(fp)
                    nxt.append(hh)
                    if len(st.samples) < 6 and len(hh) == d + 1 and (len(nxt) % 97 == 1):
                        st.samples.append({"cfg": cfg, "history": hh})
        if _should_stop(st):
            st.capped = True
            break
        # canonical order so that the explored set does not depend on worker timing
        nxt.sort()
        frontier = nxt
        completed_depth = d + 1
        if max_states is not None and len(seen) >= max_states:
            st.capped = True
            break
    st.nodes = len(seen)
    st.max_len = completed_depth
    st.by_devs = {"edges": edges, "depth_completed": completed_depth, "frontier_left": len(frontier)}
    return st
