"""Audit of the one blind spot of the state fingerprint (DESIGN.md section 2.4): the value
stack of a suspended generator (the hidden iterator of a `for` loop that contains a
`yield`) is not visible through f_locals.  The scan lists such loops in @inlineCallbacks
bodies of the tree under test; the three known ones iterate over lists with unique
elements whose position is determined by a visible local."""
import ast
import os

from mc import bootstrap

KNOWN = {("client.py", "_send_broker_unaware_request", "node_ids"),
         ("client.py", "_send_bootstrap_request", "hostports"),
         ("client.py", "_send_broker_aware_request", "payloads")}


def _has_yield(node):
    for n in ast.walk(node):
        if isinstance(n, (ast.Yield, ast.YieldFrom)):
            return True
    return False


def loops_with_yield():
    found = set()
    d = os.path.join(bootstrap.AFKAK_SRC, "afkak")
    for name in sorted(os.listdir(d)):
        if not name.endswith(".py"):
            continue
        try:
            tree = ast.parse(open(os.path.join(d, name)).read())
        except SyntaxError:
            continue
        for fn in ast.walk(tree):
            if isinstance(fn, (ast.FunctionDef, ast.AsyncFunctionDef)):
                # only generators that stay suspended across reactor events matter: @inlineCallbacks bodies
                decos = [ast.unparse(d) for d in fn.decorator_list]
                if not any("inlineCallbacks" in d for d in decos):
                    continue
                for loop in ast.walk(fn):
                    if isinstance(loop, ast.For) and _has_yield(loop):
                        # nested function definitions inside fn are visited on their own
                        owner = fn.name
                        it = ast.unparse(loop.iter) if hasattr(ast, "unparse") else "?"
                        found.add((name, owner, it.split(".")[0].split("(")[0]))
    return found


def audit():
    """Returns (ok, note).  ok is False when a loop outside the audited list exists."""
    found = loops_with_yield()
    # only loops that are themselves generators' for-loops with yields matter; nested defs may repeat outer loops
    extra = sorted(x for x in found if x not in KNOWN and not any(
        x[0] == k[0] and x[2] == k[2] for k in KNOWN))
    if extra:
        return False, ("generator for-loops with yield outside the audited list: %r -- fingerprint de-duplication "
                       "disabled for this run" % (extra,))
    return True, "generator value-stack audit: only the %d audited for-loops contain a yield" % len(KNOWN)
