"""Process bootstrap for every verification harness process.

* puts the afkak tree under test (AFKAK_SRC, default /repo) first on sys.path,
  so checks always run against the *current working tree*;
* puts the snappy shim on sys.path (python-snappy is not installed);
* silences logging and warnings (no oracle reads log output);
* exports the hook guard (AFKAK_VERIF=1; no source hooks exist, it is set for
  uniformity with MANIFEST.hooks).
"""
import hashlib
import logging
import os
import sys
import warnings

VERIF_ROOT = os.path.dirname(os.path.dirname(os.path.abspath(__file__)))
AFKAK_SRC = os.environ.get("AFKAK_SRC", "/repo")

_done = False


def init():
    global _done
    if _done:
        return
    _done = True
    os.environ.setdefault("AFKAK_VERIF", "1")
    shim = os.path.join(VERIF_ROOT, "ref", "shims")
    for p in (shim, AFKAK_SRC, VERIF_ROOT):
        if p in sys.path:
            sys.path.remove(p)
    sys.path.insert(0, VERIF_ROOT)
    sys.path.insert(0, shim)
    sys.path.insert(0, AFKAK_SRC)
    warnings.simplefilter("ignore")
    logging.disable(logging.CRITICAL)
    # Twisted's own logger: make sure nothing is printed for unhandled errors
    try:
        from twisted.logger import globalLogPublisher  # noqa
        from twisted.python import log as tlog
        tlog.startLoggingWithObserver(lambda ev: None, setStdout=False)
    except Exception:
        pass
    import afkak  # noqa

    src = os.path.realpath(os.path.dirname(afkak.__file__))
    want = os.path.realpath(os.path.join(AFKAK_SRC, "afkak"))
    if src != want:
        raise RuntimeError("afkak imported from %s, expected %s" % (src, want))


def source_digest():
    """sha256 over the afkak/*.py files that checks load (ties evidence to a tree)."""
    h = hashlib.sha256()
    d = os.path.join(AFKAK_SRC, "afkak")
    for name in sorted(os.listdir(d)):
        if name.endswith(".py"):
            h.update(name.encode())
            with open(os.path.join(d, name), "rb") as f:
                h.update(hashlib.sha256(f.read()).digest())
    return h.hexdigest()
