"""Canonical fingerprint of a live object graph (DESIGN.md section 2.4).

A generic walk of everything reachable from the given roots.  Identity is
replaced by first-visit numbering, so two heaps get the same fingerprint iff
they are isomorphic (same shape, same aliasing, same primitive values).  The
abstraction can only be too fine, never too coarse, except for the explicit,
individually justified normalisations:

* absolute virtual time -> time relative to the clock handed in (`now`);
* `datetime` stamps -> the token "dt" (afkak's `_RequestState.queued/sent/
  cancelled` are used as set/unset flags and in log text only);
* `contextvars.Context` -> constant token (captured by inlineCallbacks, never
  read by afkak);
* attribute names listed in IGNORE_ATTRS (log-only values).
"""
import collections
import datetime
import functools
import hashlib
import itertools
import types

from twisted.internet import base as _tbase
from twisted.internet import defer as _defer
from twisted.python import failure as _failure

try:
    import contextvars
    _Context = contextvars.Context
except Exception:  # pragma: no cover
    _Context = ()

# (class qualname, attribute) pairs whose value only feeds log messages
IGNORE_ATTRS = {
    ("DelayedCall", "creator"),
    ("DelayedCall", "debug"),
    ("Deferred", "_debugInfo"),
    ("Failure", "tb"),
    ("Failure", "frames"),
    ("Failure", "stack"),
    ("Failure", "parents"),
    ("Failure", "count"),
    ("Failure", "pickled"),
    ("Failure", "captureVars"),
}

_PRIMS = (type(None), bool, int, float, str, bytes, complex)


class FingerprintError(Exception):
    pass


class _Walker(object):
    def __init__(self, now, ignore_ids=()):
        self.now = now
        self.ids = {}
        self.keep = []  # keep temporaries alive so ids are not reused
        self.out = []
        self.ignore_ids = set(ignore_ids)

    def emit(self, *a):
        self.out.append(a)

    def walk(self, o):
        emit = self.emit
        if isinstance(o, _PRIMS):
            emit(type(o).__name__, o)
            return
        oid = id(o)
        if oid in self.ignore_ids:
            emit("IGN")
            return
        n = self.ids.get(oid)
        if n is not None:
            emit("REF", n)
            return
        self.ids[oid] = len(self.ids)
        self.keep.append(o)
        t = type(o)
        if t in (list, tuple, collections.deque):
            emit(t.__name__, len(o))
            for x in o:
                self.walk(x)
        elif t in (dict, collections.OrderedDict, collections.defaultdict):
            emit(t.__name__, len(o))
            if t is collections.defaultdict:
                self.walk(o.default_factory)
            for k, v in o.items():
                self.walk(k)
                self.walk(v)
        elif t in (set, frozenset):
            emit(t.__name__, len(o))
            try:
                items = sorted(o)
            except TypeError:
                items = sorted(o, key=lambda x: repr(x))
            for x in items:
                self.walk(x)
        elif t is bytearray or t is memoryview:
            emit(t.__name__, bytes(o))
        elif isinstance(o, datetime.datetime):
            emit("dt")
        elif isinstance(o, type):
            emit("class", o.__module__, o.__qualname__)
        elif t is types.ModuleType:
            emit("module", o.__name__)
        elif t is types.FunctionType:
            emit("func", o.__module__, o.__qualname__, o.__code__.co_firstlineno)
            if o.__closure__:
                for cell in o.__closure__:
                    try:
                        self.walk(cell.cell_contents)
                    except ValueError:
                        emit("emptycell")
            if o.__defaults__:
                self.walk(o.__defaults__)
        elif t is types.MethodType:
            emit("method", o.__func__.__qualname__)
            self.walk(o.__self__)
        elif t is types.BuiltinFunctionType or t is types.BuiltinMethodType:
            emit("builtin", getattr(o, "__qualname__", repr(o)))
            s = getattr(o, "__self__", None)
            if s is not None and not isinstance(s, types.ModuleType):
                self.walk(s)
        elif t in (types.MethodWrapperType, types.WrapperDescriptorType, types.MethodDescriptorType):
            emit("wrapper", getattr(o, "__qualname__", repr(type(o))))
            s = getattr(o, "__self__", None)
            if s is not None:
                self.walk(s)
        elif t is functools.partial:
            emit("partial")
            self.walk(o.func)
            self.walk(o.args)
            self.walk(o.keywords)
        elif t is types.GeneratorType:
            fr = o.gi_frame
            emit("gen", o.gi_code.co_qualname, None if fr is None else fr.f_lasti)
            if fr is not None:
                loc = fr.f_locals
                for k in sorted(loc):
                    emit("local", k)
                    self.walk(loc[k])
        elif t is types.CellType:
            try:
                self.walk(o.cell_contents)
            except ValueError:
                emit("emptycell")
        elif isinstance(o, _Context):
            emit("ctx")
        elif isinstance(o, _tbase.DelayedCall):
            emit("DelayedCall", round(o.time - self.now, 9) if not (o.cancelled or o.called) else "done",
                 o.cancelled, o.called)
            # a cancelled / fired call has dropped its references
            self.walk(getattr(o, "func", None))
            self.walk(getattr(o, "args", None))
            self.walk(getattr(o, "kw", None))
        elif isinstance(o, _failure.Failure):
            emit("Failure", o.type.__module__, o.type.__qualname__)
            self.walk(o.value)
        elif isinstance(o, BaseException):
            emit("exc", t.__module__, t.__qualname__)
            self.walk(o.args)
            d = getattr(o, "__dict__", None)
            if d:
                for k in sorted(d):
                    emit("attr", k)
                    self.walk(d[k])
        elif t is itertools.cycle:
            try:
                red = o.__reduce__()
            except Exception as e:  # pragma: no cover
                raise FingerprintError("opaque itertools.cycle: %s" % e)
            emit("cycle")
            self.walk(red[1:])
        elif t is type(iter([])) or t is type(iter(())):
            red = o.__reduce__()
            emit("iter", t.__name__)
            self.walk(red[1:])
        elif t is types.MappingProxyType:
            emit("mappingproxy")
            self.walk(dict(o))
        elif t is property or t is staticmethod or t is classmethod:
            emit(t.__name__)
        else:
            self.walk_object(o, t)

    def walk_object(self, o, t):
        name = t.__qualname__
        self.emit("obj", t.__module__, name)
        seen = False
        d = getattr(o, "__dict__", None)
        if isinstance(d, dict):
            seen = True
            for k in sorted(d):
                if (name, k) in IGNORE_ATTRS:
                    continue
                self.emit("attr", k)
                self.walk(d[k])
        for klass in t.__mro__:
            slots = klass.__dict__.get("__slots__")
            if not slots:
                continue
            if isinstance(slots, str):
                slots = (slots,)
            for s in slots:
                if s in ("__dict__", "__weakref__"):
                    continue
                seen = True
                if (name, s) in IGNORE_ATTRS:
                    continue
                try:
                    v = getattr(o, s)
                except AttributeError:
                    self.emit("slot", s, "unset")
                else:
                    self.emit("slot", s)
                    self.walk(v)
        if not seen and not isinstance(d, dict):
            # opaque extension object: refuse rather than merge silently
            try:
                red = o.__reduce_ex__(2)
            except Exception:
                raise FingerprintError("cannot fingerprint %r of type %r" % (o, t))
            self.emit("reduce")
            self.walk(red[1:3])


def fingerprint(roots, now=0.0, ignore=()):
    w = _Walker(now, [id(x) for x in ignore])
    w.walk(roots)
    h = hashlib.blake2b(digest_size=16)
    h.update(repr(w.out).encode("utf-8", "backslashreplace"))
    return h.hexdigest()


def debug_dump(roots, now=0.0, ignore=()):
    w = _Walker(now, [id(x) for x in ignore])
    w.walk(roots)
    return w.out
