"""Command-line entry, evidence writer, known-findings triage and replay files.

Usage:  python -m mc.runner C01 --tier quick
        python -m mc.runner C01 --replay out/replays/C01-xxxx.json
Exit codes: 0 property held on everything explored (KNOWN-FINDING lines allowed)
            1 unlisted violation (VIOLATION line printed)
            2 harness problem (nondeterminism, replay divergence, internal error) -- never a verdict
"""
import argparse
import hashlib
import importlib
import json
import os
import re
import sys
import time
import traceback

from mc import bootstrap

ROOT = bootstrap.VERIF_ROOT


def _jsonable(o):
    if isinstance(o, dict):
        return {str(k): _jsonable(v) for k, v in o.items()}
    if isinstance(o, (list, tuple)):
        return [_jsonable(x) for x in o]
    if isinstance(o, (set, frozenset)):
        return sorted(_jsonable(x) for x in o)
    if isinstance(o, bytes):
        return "bytes:" + o.decode("latin-1")
    if isinstance(o, (str, int, float, bool)) or o is None:
        return o
    return repr(o)


class Report(object):
    """What a check module returns from run()."""

    def __init__(self, property_id, level):
        self.property_id = property_id
        self.level = level
        self.coverage = {}
        self.assumptions = []
        self.violations = []  # dicts: oracle, signature, message, + replay info (harness,cfg,labels | input)
        self.notes = []
        self.harness_errors = []

    def add_stats(self, name, st, exhaustive=True):
        """Fold an explore.Stats into the coverage section under `parts[name]`."""
        cov = self.coverage
        parts = cov.setdefault("parts", {})
        parts[name] = {
            "executions": st.executions,
            "transitions": st.transitions,
            "states": st.nodes,
            "distinct_outcomes": len(st.outcomes),
            "distinct_nontrivial_outcomes": len(st.nontrivial_outcomes),
            "horizon_hits": st.horizon_hits,
            "longest_run": st.max_len,
            "by_deviations": st.by_devs,
            "cap_hit": st.capped,
            "distinct_end_states": len(st.end_states),
        }
        cov["evaluations"] = cov.get("evaluations", 0) + st.executions
        cov["states"] = cov.get("states", 0) + st.nodes
        cov["transitions"] = cov.get("transitions", 0) + st.transitions
        cov["traces_validated_against_impl"] = cov.get("traces_validated_against_impl", 0) + st.executions
        cov.setdefault("_nontrivial", set()).update((name, o) for o in st.nontrivial_outcomes)
        cov.setdefault("samples", [])
        for s in st.samples:
            if len(cov["samples"]) < 8:
                cov["samples"].append(s)
        if st.capped or not exhaustive:
            cov["exhaustive"] = False
        else:
            cov.setdefault("exhaustive", True)
        for v in st.violations:
            if v.get("oracle") == "HARNESS":
                self.harness_errors.append(v)
            else:
                self.violations.append(v)


def load_known():
    path = os.path.join(ROOT, "known_findings.json")
    if not os.path.exists(path):
        return {"findings": [], "fixed": []}
    with open(path) as f:
        return json.load(f)


def match_known(known, prop, signature):
    for k in known.get("findings", []):
        if k.get("property") != prop:
            continue
        if k.get("signature") == signature:
            return k
        rx = k.get("signature_re")
        if rx and re.fullmatch(rx, signature):
            return k
    return None


def write_replay(prop, v):
    d = os.path.join(ROOT, "out", "replays")
    os.makedirs(d, exist_ok=True)
    body = _jsonable({k: v.get(k) for k in ("oracle", "signature", "message", "harness", "cfg", "labels", "input",
                                            "check", "max_steps")})
    body["property"] = prop
    h = hashlib.sha1(json.dumps(body, sort_keys=True).encode()).hexdigest()[:12]
    path = os.path.join(d, "%s-%s.json" % (prop, h))
    with open(path, "w") as f:
        json.dump(body, f, indent=1, sort_keys=True)
    return path


def confirm(v, module):
    """Re-execute a violating schedule twice; it must fail identically both times."""
    if hasattr(module, "replay"):
        sigs = []
        for _ in range(2):
            try:
                got = module.replay(v)
            except Exception:
                return False, "replay raised: " + traceback.format_exc()
            sigs.append(sorted(x["signature"] for x in got))
        if sigs[0] != sigs[1]:
            return False, "replay gave different results: %r vs %r" % (sigs[0], sigs[1])
        if v["signature"] not in sigs[0]:
            return False, "replay did not reproduce %r (got %r)" % (v["signature"], sigs[0])
    return True, ""


def write_evidence(rep, tier, seed, wall, nviol, extra=None):
    cov = dict(rep.coverage)
    nt = cov.pop("_nontrivial", None)
    if nt is not None:
        cov["distinct_nontrivial"] = len(nt)
    cov.setdefault("evaluations", 0)
    cov.setdefault("distinct_nontrivial", 0)
    cov.setdefault("samples", [])
    cov["afkak_tree_sha256"] = bootstrap.source_digest()
    cov["afkak_src"] = bootstrap.AFKAK_SRC
    if extra:
        cov.update(extra)
    ev = {
        "property_id": rep.property_id,
        "tier": tier,
        "seed": seed,
        "level": rep.level,
        "coverage": _jsonable(cov),
        "assumptions": rep.assumptions,
        "wall_s": round(wall, 3),
        "violations": nviol,
    }
    d = os.environ.get("VERIF_EVIDENCE_DIR") or os.path.join(ROOT, "evidence")
    os.makedirs(d, exist_ok=True)
    path = os.path.join(d, "%s.json" % rep.property_id)
    tmp = path + ".tmp"
    with open(tmp, "w") as f:
        json.dump(ev, f, indent=1, sort_keys=True)
    os.replace(tmp, path)
    return path


def main(argv=None):
    ap = argparse.ArgumentParser()
    ap.add_argument("prop")
    ap.add_argument("--tier", default=os.environ.get("VERIF_TIER", "quick"), choices=["quick", "thorough"])
    ap.add_argument("--replay")
    ap.add_argument("--only", default=None, help="run only the named part(s) of the check (comma separated)")
    args = ap.parse_args(argv)
    seed = int(os.environ.get("VERIF_SEED", "0") or 0)
    bootstrap.init()
    prop = args.prop
    module = importlib.import_module("checks.%s" % prop)

    if args.replay:
        with open(args.replay) as f:
            v = json.load(f)
        got = module.replay(v)
        for g in got:
            print("REPLAY-VIOLATION property=%s oracle=%s signature=%s\n  %s" % (
                prop, g["oracle"], g["signature"], g["message"]))
        if not got:
            print("REPLAY-OK property=%s: schedule no longer violates" % prop)
        return 1 if got else 0

    t0 = time.time()
    from mc import explore
    known0 = load_known()
    explore.EARLY_STOP = lambda v: match_known(known0, prop, v.get("signature", "")) is None
    try:
        rep = module.run(args.tier, seed, only=(args.only.split(",") if args.only else None))
    except Exception:
        traceback.print_exc()
        print("HARNESS-ERROR property=%s internal error (not a verdict)" % prop)
        return 2
    finally:
        explore.close_pool()
    wall = time.time() - t0

    known = load_known()
    unlisted = []
    listed = {}
    nondet = []
    seen_sigs = set()
    for v in rep.violations:
        sig = v["signature"]
        k = match_known(known, prop, sig)
        if k is not None:
            listed.setdefault(k.get("signature") or k.get("signature_re"), (k, v))
            continue
        if sig in seen_sigs:
            continue
        seen_sigs.add(sig)
        ok, why = confirm(v, module)
        if not ok:
            nondet.append((v, why))
            continue
        unlisted.append(v)

    extra = {"known_findings_reported": sorted(listed), "bound_note": "; ".join(rep.notes)}
    write_evidence(rep, args.tier, seed, wall, len(unlisted), extra)

    cov = rep.coverage
    print("CHECK %s tier=%s seed=%d wall=%.1fs evaluations=%s states=%s transitions=%s distinct_nontrivial=%s "
          "exhaustive=%s" % (prop, args.tier, seed, wall, cov.get("evaluations"), cov.get("states"),
                             cov.get("transitions"), len(cov.get("_nontrivial", ())) or cov.get(
                                 "distinct_nontrivial"), cov.get("exhaustive")))
    for n in rep.notes:
        print("NOTE " + n)
    for sig, (k, v) in sorted(listed.items()):
        print("KNOWN-FINDING: property=%s %s [%s]" % (prop, k.get("what", ""), sig))
    rc = 0
    for v in unlisted:
        path = write_replay(prop, v)
        print("VIOLATION property=%s replay=%s" % (prop, path))
        print("  oracle=%s signature=%s\n  %s" % (v["oracle"], v["signature"], v["message"]))
        rc = 1
    if rep.harness_errors or nondet:
        for v in rep.harness_errors[:5]:
            print("HARNESS-ERROR property=%s %s: %s" % (prop, v["signature"], v["message"][:2000]))
        for v, why in nondet[:5]:
            print("HARNESS-NONDETERMINISM property=%s signature=%s: %s" % (prop, v["signature"], why[:2000]))
        if rc == 0:
            rc = 2
    return rc


if __name__ == "__main__":
    _rc = main()
    # everything (evidence, replay files, report) is written by now; skip the interpreter's exit handlers: after
    # several early-terminated worker pools multiprocessing's own finalizers can wait for ever
    sys.stdout.flush()
    sys.stderr.flush()
    os._exit(_rc or 0)
