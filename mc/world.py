"""Virtual world: clock, network, transports and determinism seams
(DESIGN.md section 2.2).  Everything nondeterministic that afkak can observe
is owned here and resolved only by explicit explorer events.
"""
from twisted.internet import address, error, task
from twisted.internet.defer import Deferred
from twisted.python.failure import Failure


class VClock(task.Clock):
    """task.Clock that fires exactly one DelayedCall per `fire_next()`.

    Time only moves through fire_next(); callLater(0, ...) never runs
    re-entrantly.  Every callLater is journalled (time, delay, callable name)
    for the timing oracles.
    """

    def __init__(self):
        task.Clock.__init__(self)
        self.journal = []  # (now, delay, name)
        self._seq = 0

    def callLater(self, delay, callable, *args, **kw):
        dc = task.Clock.callLater(self, delay, callable, *args, **kw)
        self._seq += 1
        dc._vseq = self._seq
        self.journal.append((self.rightNow, float(delay), _callable_name(callable)))
        return dc

    def pending(self):
        calls = [c for c in self.calls if not c.cancelled and not c.called]
        calls.sort(key=lambda c: (c.getTime(), getattr(c, "_vseq", 0)))
        return calls

    def next_time(self):
        p = self.pending()
        return p[0].getTime() if p else None

    def fire_next(self):
        p = self.pending()
        if not p:
            raise RuntimeError("no pending delayed call")
        call = p[0]
        if call.getTime() > self.rightNow:
            self.rightNow = call.getTime()
        self.calls.remove(call)
        call.called = 1
        call.func(*call.args, **call.kw)
        return call

    def advance(self, amount):  # pragma: no cover - guard against accidental use
        raise RuntimeError("VClock.advance must not be used; use fire_next")


def _callable_name(f):
    n = getattr(f, "__qualname__", None)
    if n is None:
        fn = getattr(f, "func", None)
        if fn is not None:
            return _callable_name(fn)
        n = type(f).__name__
    s = getattr(f, "__self__", None)
    if s is not None and not isinstance(s, type(task)):
        n = "%s<%s>" % (n, type(s).__name__)
    return n


class Peer(object):
    def __init__(self, host, port):
        self.host = host
        self.port = port
        self.type = "TCP"

    def __repr__(self):
        return "Peer(%s:%s)" % (self.host, self.port)


class VTransport(object):
    """The part of ITransport that afkak relies on."""

    def __init__(self, conn):
        self.conn = conn
        self.disconnecting = False
        self.connected = True

    def write(self, data):
        if self.disconnecting or not self.connected:
            self.conn.discarded += len(data)
            self.conn.discarded_frames.append(bytes(data)[4:])
            return
        self.conn.client_wrote(bytes(data))

    def writeSequence(self, seq):
        self.write(b"".join(seq))

    def loseConnection(self, *a, **kw):
        if not self.connected:
            return
        if not self.disconnecting:
            self.disconnecting = True
            self.conn.client_closing = True
            self.conn.net.journal.append(("lose", self.conn.cid))

    def abortConnection(self):
        self.loseConnection()

    def getPeer(self):
        return self.conn.peer

    def getHost(self):
        return Peer("client", 50000 + self.conn.cid)

    def pauseProducing(self):
        pass

    def resumeProducing(self):
        pass

    def stopProducing(self):
        self.loseConnection()

    def registerProducer(self, producer, streaming):
        pass

    def unregisterProducer(self):
        pass

    def setTcpNoDelay(self, enabled):
        pass

    def setTcpKeepAlive(self, enabled):
        pass


class Connection(object):
    """One established TCP connection, as seen from both sides."""

    def __init__(self, net, cid, host, port, kind):
        self.net = net
        self.cid = cid
        self.host = host
        self.port = port
        self.kind = kind  # free-form tag chosen by the harness ("broker"/"bootstrap")
        self.peer = Peer(host, port)
        self.proto = None
        self.transport = VTransport(self)
        self.open = True
        self.client_closing = False
        self.c2b = bytearray()  # bytes written by the client, not yet framed by the server side
        self.c2b_total = 0
        self.frames = []  # complete request frames received by the broker (payload bytes), in order
        self.b2c = bytearray()  # bytes queued by the broker, not yet delivered to the client
        self.discarded = 0
        self.discarded_frames = []  # writes made after loseConnection (a real transport drops them too)
        self.server = None  # server-side state attached by the simulated broker
        self.opened_at = net.clock.seconds()

    def client_wrote(self, data):
        self.c2b += data
        self.c2b_total += len(data)
        self.net.journal.append(("write", self.cid, len(data)))
        # TCP: bytes are visible to the broker in order; frame them now
        while len(self.c2b) >= 4:
            n = int.from_bytes(self.c2b[:4], "big")
            if len(self.c2b) < 4 + n:
                break
            payload = bytes(self.c2b[4:4 + n])
            del self.c2b[:4 + n]
            self.frames.append(payload)
            self.net.on_frame(self, payload)

    def deliver(self, n=None):
        """Move n (default: all) queued broker bytes into the client protocol."""
        if not self.open:
            raise RuntimeError("deliver on closed connection")
        if n is None:
            n = len(self.b2c)
        data = bytes(self.b2c[:n])
        del self.b2c[:n]
        if data:
            self.proto.dataReceived(data)

    def close(self, reason):
        """Deliver connectionLost to the client protocol (a separate reactor event)."""
        if not self.open:
            raise RuntimeError("double close")
        self.open = False
        self.transport.connected = False
        self.net.journal.append(("closed", self.cid))
        self.net.on_close(self)
        self.proto.connectionLost(Failure(reason))


class Attempt(object):
    def __init__(self, aid, host, port, factory, d):
        self.aid = aid
        self.host = host
        self.port = port
        self.factory = factory
        self.d = d
        self.state = "pending"  # pending | accepted | refused | cancelled


class VEndpoint(object):
    def __init__(self, net, host, port):
        self.net = net
        self.host = host
        self.port = port

    def connect(self, factory):
        return self.net._connect(self.host, self.port, factory)

    def __repr__(self):
        return "VEndpoint(%s:%s)" % (self.host, self.port)


class VNet(object):
    """endpoint_factory + registry of attempts and connections."""

    def __init__(self, clock):
        self.clock = clock
        self.attempts = []
        self.conns = []
        self.journal = []  # ("attempt", aid, host, port) / ("write", cid, n) / ("lose", cid) / ...
        self.frame_handlers = []
        self.close_handlers = []
        self.closed_flag = False  # set by harnesses after client.close(): later attempts are recorded
        self.sync_refuse = 0  # number of coming connect() calls that fail synchronously

    # -- the endpoint factory handed to afkak
    def endpoint_factory(self, reactor, host, port):
        return VEndpoint(self, host, port)

    def _connect(self, host, port, factory):
        aid = len(self.attempts)

        def cancel(d):
            if a.state not in ("pending", "hung"):
                return
            a.state = "cancelled"
            self.journal.append(("attempt-cancelled", aid))
            d.errback(error.ConnectingCancelledError(address.IPv4Address("TCP", host, port)))

        d = Deferred(cancel)
        a = Attempt(aid, host, port, factory, d)
        self.attempts.append(a)
        self.journal.append(("attempt", aid, host, port, self.clock.seconds()))
        if self.sync_refuse:
            # the endpoint fails at once (e.g. name resolution answered from a negative cache): connect() returns
            # a Deferred that has already failed
            self.sync_refuse -= 1
            a.state = "refused"
            a.sync = True
            self.journal.append(("refuse", aid))
            d.errback(error.ConnectionRefusedError("refused synchronously by virtual network"))
        return d

    def pending_attempts(self):
        return [a for a in self.attempts if a.state == "pending"]

    def accept(self, a, kind="broker"):
        assert a.state == "pending"
        a.state = "accepted"
        conn = Connection(self, len(self.conns), a.host, a.port, kind)
        conn.attempt = a
        self.conns.append(conn)
        addr = address.IPv4Address("TCP", a.host, a.port)
        proto = a.factory.buildProtocol(addr)
        conn.proto = proto
        self.journal.append(("accept", a.aid, conn.cid))
        proto.makeConnection(conn.transport)
        a.d.callback(proto)
        return conn

    def refuse(self, a):
        assert a.state == "pending"
        a.state = "refused"
        self.journal.append(("refuse", a.aid))
        a.d.errback(error.ConnectionRefusedError("refused by virtual network"))

    def open_conns(self):
        return [c for c in self.conns if c.open]

    def on_frame(self, conn, payload):
        for h in self.frame_handlers:
            h(conn, payload)

    def on_close(self, conn):
        for h in self.close_handlers:
            h(conn)


class ShuffleSeam(object):
    """Stand-in for the `random` module inside afkak.client: shuffle() is the
    identity unless a permutation index was scripted by the explorer."""

    def __init__(self):
        self.script = []  # permutation choices consumed in order
        self.calls = 0

    def shuffle(self, lst):
        self.calls += 1
        if self.script:
            k = self.script.pop(0)
            n = len(lst)
            if n > 1:
                k %= n
                lst[:] = lst[k:] + lst[:k]  # rotations suffice to make every element first

    def __getattr__(self, name):  # anything else from random would be a new source of nondeterminism
        raise AttributeError("afkak.client.random.%s is not modelled by the verification seam" % name)


def install_seams(clock, shuffle=None):
    """Monkey-patch module attributes (no source hooks needed)."""
    import afkak.client as _client
    import afkak.kafkacodec as _kc

    seam = shuffle or ShuffleSeam()
    _client.random = seam

    class _Time(object):
        @staticmethod
        def time():
            return 1500000000.0 + clock.seconds()

    _kc.time = _Time
    # the gzip module stamps the wall-clock second into every header it writes (afkak.codec.gzip_encode passes no
    # mtime): the virtual clock owns that source of time too
    import gzip as _gzip
    _gzip.time = _Time
    return seam
