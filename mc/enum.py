"""Bounded-exhaustive input enumeration helper: fan a list of work units out
to the process pool; every unit enumerates its slice completely."""
import importlib
import random
import traceback

from mc import explore


class EnumStats(object):
    def __init__(self):
        self.evaluations = 0
        self.classes = set()     # digests of distinct non-trivial cases
        self.violations = []
        self.samples = []
        self.rejected = 0
        self.extra = {}

    def merge(self, o):
        self.evaluations += o.evaluations
        self.classes |= o.classes
        self.rejected += o.rejected
        for v in o.violations:
            if len(self.violations) < 50:
                self.violations.append(v)
        for s in o.samples:
            if len(self.samples) < 8:
                self.samples.append(s)
        for k, v in o.extra.items():
            if isinstance(v, (int, float)):
                self.extra[k] = self.extra.get(k, 0) + v
            elif isinstance(v, set):
                self.extra.setdefault(k, set()).update(v)
            else:
                self.extra[k] = v


def _unit(args):
    spec, unit = args
    from mc import bootstrap
    bootstrap.init()
    mod, _, name = spec.partition(":")
    fn = getattr(importlib.import_module(mod), name)
    try:
        return fn(unit)
    except Exception:
        st = EnumStats()
        st.violations.append({"oracle": "HARNESS", "signature": "harness-exception",
                              "message": traceback.format_exc(), "input": repr(unit)[:500], "check": spec})
        return st


def run_units(spec, units, seed=0):
    units = list(units)
    random.Random(seed).shuffle(units)
    total = EnumStats()
    if not units:
        return total
    p = explore.pool()
    for st in p.imap_unordered(_unit, [(spec, u) for u in units], chunksize=1):
        total.merge(st)
        if explore._should_stop(total):
            p.terminate()
            explore._pool = None
            total.extra["stopped_early"] = 1
            break
    return total


def fold(rep, name, st, exhaustive=True):
    cov = rep.coverage
    parts = cov.setdefault("parts", {})
    parts[name] = {"evaluations": st.evaluations, "distinct_nontrivial": len(st.classes), "rejected": st.rejected}
    for k, v in st.extra.items():
        parts[name][k] = sorted(v) if isinstance(v, set) else v
    cov["evaluations"] = cov.get("evaluations", 0) + st.evaluations
    cov.setdefault("_nontrivial", set()).update((name, c) for c in st.classes)
    cov.setdefault("samples", [])
    for s in st.samples:
        if len(cov["samples"]) < 8:
            cov["samples"].append(s)
    if st.extra.get("stopped_early"):
        cov["exhaustive"] = False
    elif exhaustive:
        cov.setdefault("exhaustive", True)
    else:
        cov["exhaustive"] = False
    for v in st.violations:
        if v.get("oracle") == "HARNESS":
            rep.harness_errors.append(v)
        else:
            rep.violations.append(v)
