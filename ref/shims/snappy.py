"""Minimal pure-Python stand-in for python-snappy (absent from this image).

Raw snappy block format only: ``compress`` emits a varint length followed by
literal elements (valid snappy, just not compressed); ``decompress`` is a full
decoder of the raw format (literals and all three copy element kinds) so that
data produced by either side round-trips.  It is placed on sys.path only
inside verification harness processes (see mc/bootstrap.py); the repository's
own tests never see it.
"""


class UncompressError(Exception):
    pass


def _varint(n):
    out = bytearray()
    while True:
        b = n & 0x7F
        n >>= 7
        if n:
            out.append(b | 0x80)
        else:
            out.append(b)
            return bytes(out)


def compress(data):
    if isinstance(data, str):
        data = data.encode("utf-8")
    data = bytes(data)
    out = [_varint(len(data))]
    pos = 0
    while pos < len(data):
        chunk = data[pos:pos + 65536]
        n = len(chunk) - 1
        if n < 60:
            out.append(bytes([n << 2]))
        elif n < 256:
            out.append(bytes([60 << 2, n]))
        else:
            out.append(bytes([61 << 2, n & 0xFF, n >> 8]))
        out.append(chunk)
        pos += len(chunk)
    return b"".join(out)


def decompress(data):
    data = bytes(data)
    pos = 0
    length = 0
    shift = 0
    while True:
        if pos >= len(data):
            raise UncompressError("truncated varint")
        b = data[pos]
        pos += 1
        length |= (b & 0x7F) << shift
        if not b & 0x80:
            break
        shift += 7
        if shift > 35:
            raise UncompressError("varint too long")
    out = bytearray()
    n = len(data)
    while pos < n:
        tag = data[pos]
        pos += 1
        kind = tag & 3
        if kind == 0:
            ln = tag >> 2
            if ln >= 60:
                nb = ln - 59
                if pos + nb > n:
                    raise UncompressError("truncated literal length")
                ln = int.from_bytes(data[pos:pos + nb], "little")
                pos += nb
            ln += 1
            if pos + ln > n:
                raise UncompressError("truncated literal")
            out += data[pos:pos + ln]
            pos += ln
            continue
        if kind == 1:
            ln = ((tag >> 2) & 7) + 4
            if pos + 1 > n:
                raise UncompressError("truncated copy1")
            off = ((tag >> 5) << 8) | data[pos]
            pos += 1
        elif kind == 2:
            ln = (tag >> 2) + 1
            if pos + 2 > n:
                raise UncompressError("truncated copy2")
            off = int.from_bytes(data[pos:pos + 2], "little")
            pos += 2
        else:
            ln = (tag >> 2) + 1
            if pos + 4 > n:
                raise UncompressError("truncated copy4")
            off = int.from_bytes(data[pos:pos + 4], "little")
            pos += 4
        if off == 0 or off > len(out):
            raise UncompressError("bad copy offset")
        for _ in range(ln):
            out.append(out[-off])
    if len(out) != length:
        raise UncompressError("length mismatch")
    return bytes(out)


uncompress = decompress
