"""refkafka -- an independent, table-driven implementation of the Kafka wire
protocol subset that afkak speaks (DESIGN.md section 3.1, Appendix A).

It shares no code with afkak: schemas are declarative and a small interpreter
encodes / strictly parses them.  "Strict" means: the whole input must be
consumed, lengths must be >= -1 (and -1 only where null is allowed), array
counts >= 0, CRCs must verify, message magic / attribute bits must be legal.

Values: Struct -> dict, Array -> list, ints -> int, STRING -> str,
BYTES -> bytes|None, RECORDS -> list of message dicts (see parse_message_set).
"""
import gzip
import io
import struct
import zlib


class ParseError(Exception):
    pass


# --------------------------------------------------------------------------
# primitive codecs
# --------------------------------------------------------------------------
class Reader(object):
    __slots__ = ("data", "pos", "end")

    def __init__(self, data, pos=0, end=None):
        self.data = data
        self.pos = pos
        self.end = len(data) if end is None else end

    def take(self, n):
        if n < 0 or self.pos + n > self.end:
            raise ParseError("need %d bytes at %d, have %d" % (n, self.pos, self.end - self.pos))
        b = self.data[self.pos:self.pos + n]
        self.pos += n
        return b

    def remaining(self):
        return self.end - self.pos


class Int(object):
    def __init__(self, fmt, name):
        self.s = struct.Struct(fmt)
        self.name = name
        self.size = self.s.size

    def enc(self, v):
        try:
            return self.s.pack(v)
        except struct.error as e:
            raise ValueError("%s out of range: %r (%s)" % (self.name, v, e))

    def dec(self, r):
        return self.s.unpack(r.take(self.size))[0]


INT8 = Int(">b", "INT8")
INT16 = Int(">h", "INT16")
INT32 = Int(">i", "INT32")
INT64 = Int(">q", "INT64")
UINT32 = Int(">I", "UINT32")


class _String(object):
    def __init__(self, nullable):
        self.nullable = nullable

    def enc(self, v):
        if v is None:
            if not self.nullable:
                raise ValueError("null STRING not allowed")
            return INT16.enc(-1)
        b = v.encode("utf-8") if isinstance(v, str) else bytes(v)
        if len(b) > 32767:
            raise ValueError("STRING too long")
        return INT16.enc(len(b)) + b

    def dec(self, r):
        n = INT16.dec(r)
        if n == -1:
            if not self.nullable:
                raise ParseError("null STRING where non-null required")
            return None
        if n < 0:
            raise ParseError("negative STRING length %d" % n)
        b = r.take(n)
        try:
            return b.decode("utf-8")
        except UnicodeDecodeError as e:
            raise ParseError("STRING is not UTF-8: %s" % e)


STRING = _String(False)
NSTRING = _String(True)


class _Bytes(object):
    def __init__(self, nullable=True):
        self.nullable = nullable

    def enc(self, v):
        if v is None:
            if not self.nullable:
                raise ValueError("null BYTES not allowed")
            return INT32.enc(-1)
        return INT32.enc(len(v)) + bytes(v)

    def dec(self, r):
        n = INT32.dec(r)
        if n == -1:
            if not self.nullable:
                raise ParseError("null BYTES where non-null required")
            return None
        if n < 0:
            raise ParseError("negative BYTES length %d" % n)
        return bytes(r.take(n))


BYTES = _Bytes(True)


class Array(object):
    def __init__(self, item):
        self.item = item

    def enc(self, v):
        out = [INT32.enc(len(v))]
        for x in v:
            out.append(self.item.enc(x))
        return b"".join(out)

    def dec(self, r):
        n = INT32.dec(r)
        if n < 0:
            raise ParseError("negative ARRAY count %d" % n)
        # every element occupies at least one byte: reject hostile counts early
        if n > r.remaining():
            raise ParseError("ARRAY count %d exceeds remaining bytes %d" % (n, r.remaining()))
        return [self.item.dec(r) for _ in range(n)]


class Struct(object):
    def __init__(self, *fields):
        self.fields = fields

    def enc(self, v):
        return b"".join(t.enc(v[name]) for name, t in self.fields)

    def dec(self, r):
        return {name: t.dec(r) for name, t in self.fields}


class Records(object):
    """BYTES holding a MessageSet, parsed strictly (request side)."""

    def enc(self, v):
        if v is None:
            return INT32.enc(-1)
        if isinstance(v, (bytes, bytearray)):
            return BYTES.enc(v)
        return BYTES.enc(encode_message_set(v))

    def dec(self, r):
        b = BYTES.dec(r)
        if b is None:
            return None
        return parse_message_set(b)


RECORDS = Records()

# --------------------------------------------------------------------------
# message sets (magic 0 and 1)
# --------------------------------------------------------------------------
CODEC_NONE, CODEC_GZIP, CODEC_SNAPPY = 0, 1, 2


def gzip_compress(data):
    buf = io.BytesIO()
    with gzip.GzipFile(fileobj=buf, mode="wb", mtime=0) as f:
        f.write(data)
    return buf.getvalue()


def gzip_decompress(data):
    try:
        with gzip.GzipFile(fileobj=io.BytesIO(data), mode="rb") as f:
            return f.read()
    except Exception as e:
        raise ParseError("bad gzip payload: %s" % e)


_XERIAL = b"\x82SNAPPY\x00\x00\x00\x00\x01\x00\x00\x00\x01"


def snappy_compress(data):
    import snappy  # the shim (ref/shims) or the real library

    return snappy.compress(data)


def snappy_decompress(data):
    import snappy

    try:
        if data.startswith(_XERIAL):
            out = []
            pos = 16
            while pos < len(data):
                (n,) = struct.unpack_from(">i", data, pos)
                pos += 4
                out.append(snappy.decompress(data[pos:pos + n]))
                pos += n
            return b"".join(out)
        return snappy.decompress(data)
    except Exception as e:
        raise ParseError("bad snappy payload: %s" % e)


def msg(offset=0, key=None, value=None, magic=0, attributes=0, timestamp=None, inner=None):
    """Construct a message dict.  For a compressed wrapper pass inner=[...]
    and attributes with the codec bits; value is computed by the encoder."""
    if magic == 1 and timestamp is None:
        timestamp = -1
    return {"offset": offset, "magic": magic, "attributes": attributes, "timestamp": timestamp,
            "key": key, "value": value, "inner": inner}


def encode_message(m):
    magic = m["magic"]
    value = m["value"]
    codec = m["attributes"] & 0x07
    if m.get("inner") is not None and value is None:
        inner_bytes = encode_message_set(m["inner"])
        if codec == CODEC_GZIP and m.get("members", 1) > 1:
            # a multi-member gzip stream (RFC 1952 section 2.2: "a gzip file consists of a series of members"):
            # the inner message set cut into `members` pieces, each compressed on its own
            k = m["members"]
            cuts = [len(inner_bytes) * i // k for i in range(k + 1)]
            value = b"".join(gzip_compress(inner_bytes[cuts[i]:cuts[i + 1]]) for i in range(k))
        elif codec == CODEC_GZIP:
            value = gzip_compress(inner_bytes)
        elif codec == CODEC_SNAPPY:
            value = snappy_compress(inner_bytes)
        else:
            raise ValueError("inner messages need a codec")
    if magic == 0:
        body = struct.pack(">bb", 0, m["attributes"])
    elif magic == 1:
        body = struct.pack(">bbq", 1, m["attributes"], m["timestamp"])
    else:
        raise ValueError("magic %r" % (magic,))
    body += BYTES.enc(m["key"]) + BYTES.enc(value)
    return UINT32.enc(zlib.crc32(body) & 0xFFFFFFFF) + body


def encode_message_set(msgs):
    out = []
    for m in msgs:
        e = encode_message(m)
        out.append(INT64.enc(m["offset"]))
        out.append(INT32.enc(len(e)))
        out.append(e)
    return b"".join(out)


def parse_message_set(data, allowed_magic=(0, 1), depth=0, allow_partial_tail=False):
    """Strictly parse a MessageSet into a list of message dicts.

    allow_partial_tail: a fetch response may end in a cut message; then the
    complete prefix is returned (strictness applies to everything before it).
    """
    if depth > 2:
        raise ParseError("message set nesting deeper than 2")
    r = Reader(data)
    out = []
    while r.remaining() > 0:
        start = r.pos
        try:
            offset = INT64.dec(r)
            size = INT32.dec(r)
            if size < 0:
                raise ParseError("negative message size %d" % size)
            body = r.take(size)
        except ParseError:
            if allow_partial_tail:
                r.pos = start
                break
            raise
        out.append(_parse_message(body, offset, allowed_magic, depth))
    return out


def _parse_message(body, offset, allowed_magic, depth):
    if len(body) < 14:
        raise ParseError("message of %d bytes is shorter than the v0 minimum 14" % len(body))
    r = Reader(body)
    crc = UINT32.dec(r)
    if crc != (zlib.crc32(body[4:]) & 0xFFFFFFFF):
        raise ParseError("message CRC mismatch at offset %d" % offset)
    magic = INT8.dec(r)
    attributes = INT8.dec(r)
    if magic not in (0, 1):
        raise ParseError("unknown magic %d" % magic)
    if magic not in allowed_magic:
        raise ParseError("magic %d not allowed here (allowed %r)" % (magic, tuple(allowed_magic)))
    timestamp = None
    if magic == 1:
        timestamp = INT64.dec(r)
    codec = attributes & 0x07
    legal_bits = 0x07 | (0x08 if magic == 1 else 0)
    if attributes & ~legal_bits:
        raise ParseError("illegal attribute bits 0x%02x for magic %d" % (attributes & 0xFF, magic))
    if codec not in (CODEC_NONE, CODEC_GZIP, CODEC_SNAPPY):
        raise ParseError("unsupported codec %d" % codec)
    key = BYTES.dec(r)
    value = BYTES.dec(r)
    if r.remaining():
        raise ParseError("%d trailing bytes inside message" % r.remaining())
    inner = None
    if codec != CODEC_NONE:
        if value is None:
            raise ParseError("compressed wrapper with null value")
        raw = gzip_decompress(value) if codec == CODEC_GZIP else snappy_decompress(value)
        inner = parse_message_set(raw, allowed_magic=(magic,), depth=depth + 1)
        if not inner:
            raise ParseError("compressed wrapper without inner messages")
    return {"offset": offset, "magic": magic, "attributes": attributes, "timestamp": timestamp,
            "key": key, "value": value, "inner": inner}


def flatten(msgs, absolute=True):
    """Leaf messages of a (possibly nested) message set, with the absolute log
    offsets the protocol defines: magic 0 inner offsets are absolute already;
    magic 1 inner offsets are relative and the wrapper carries the offset of its
    last inner message (Kafka's rule: abs_i = wrapper - inner_last + inner_i)."""
    out = []
    for m in msgs:
        if m["inner"] is None:
            out.append(m)
            continue
        inner = flatten(m["inner"], absolute)
        if absolute and m["magic"] == 1 and inner:
            last = inner[-1]["offset"]
            inner = [dict(x, offset=m["offset"] - last + x["offset"]) for x in inner]
        out.extend(inner)
    return out


# --------------------------------------------------------------------------
# API schemas
# --------------------------------------------------------------------------
PRODUCE, FETCH, LIST_OFFSETS, METADATA = 0, 1, 2, 3
OFFSET_COMMIT, OFFSET_FETCH, FIND_COORDINATOR = 8, 9, 10
JOIN_GROUP, HEARTBEAT, LEAVE_GROUP, SYNC_GROUP = 11, 12, 13, 14
API_VERSIONS = 18

API_NAMES = {0: "Produce", 1: "Fetch", 2: "ListOffsets", 3: "Metadata", 8: "OffsetCommit", 9: "OffsetFetch",
             10: "FindCoordinator", 11: "JoinGroup", 12: "Heartbeat", 13: "LeaveGroup", 14: "SyncGroup",
             18: "ApiVersions"}


def _topics(part_struct):
    return Array(Struct(("topic", STRING), ("partitions", Array(part_struct))))


_produce_req = Struct(("acks", INT16), ("timeout", INT32),
                      ("topics", _topics(Struct(("partition", INT32), ("records", RECORDS)))))
_fetch_req = Struct(("replica_id", INT32), ("max_wait", INT32), ("min_bytes", INT32),
                    ("topics", _topics(Struct(("partition", INT32), ("offset", INT64), ("max_bytes", INT32)))))

REQ = {
    (PRODUCE, 0): _produce_req, (PRODUCE, 1): _produce_req, (PRODUCE, 2): _produce_req,
    (FETCH, 0): _fetch_req, (FETCH, 1): _fetch_req, (FETCH, 2): _fetch_req,
    (LIST_OFFSETS, 0): Struct(("replica_id", INT32),
                              ("topics", _topics(Struct(("partition", INT32), ("timestamp", INT64),
                                                        ("max_num_offsets", INT32))))),
    (METADATA, 0): Struct(("topics", Array(STRING))),
    (OFFSET_COMMIT, 1): Struct(("group", STRING), ("generation", INT32), ("member", STRING),
                               ("topics", _topics(Struct(("partition", INT32), ("offset", INT64),
                                                         ("timestamp", INT64), ("metadata", NSTRING))))),
    (OFFSET_FETCH, 1): Struct(("group", STRING), ("topics", _topics(Struct(("partition", INT32))))),
    (FIND_COORDINATOR, 0): Struct(("group", STRING)),
    (JOIN_GROUP, 0): Struct(("group", STRING), ("session_timeout", INT32), ("member", STRING),
                            ("protocol_type", STRING),
                            ("protocols", Array(Struct(("name", STRING), ("metadata", _Bytes(False)))))),
    (HEARTBEAT, 0): Struct(("group", STRING), ("generation", INT32), ("member", STRING)),
    (LEAVE_GROUP, 0): Struct(("group", STRING), ("member", STRING)),
    (SYNC_GROUP, 0): Struct(("group", STRING), ("generation", INT32), ("member", STRING),
                            ("assignments", Array(Struct(("member", STRING), ("assignment", _Bytes(False)))))),
    (API_VERSIONS, 0): Struct(),
}

_produce_resp_v0 = Struct(("topics", _topics(Struct(("partition", INT32), ("error", INT16), ("offset", INT64)))))
_produce_resp_v1 = Struct(("topics", _topics(Struct(("partition", INT32), ("error", INT16), ("offset", INT64)))),
                          ("throttle_ms", INT32))
_produce_resp_v2 = Struct(("topics", _topics(Struct(("partition", INT32), ("error", INT16), ("offset", INT64),
                                                    ("log_append_time", INT64)))),
                          ("throttle_ms", INT32))
_fetch_part = Struct(("partition", INT32), ("error", INT16), ("high_watermark", INT64), ("records", BYTES))
_fetch_resp_v0 = Struct(("topics", _topics(_fetch_part)))
_fetch_resp_v1 = Struct(("throttle_ms", INT32), ("topics", _topics(_fetch_part)))

RESP = {
    (PRODUCE, 0): _produce_resp_v0, (PRODUCE, 1): _produce_resp_v1, (PRODUCE, 2): _produce_resp_v2,
    (FETCH, 0): _fetch_resp_v0, (FETCH, 1): _fetch_resp_v1, (FETCH, 2): _fetch_resp_v1,
    (LIST_OFFSETS, 0): Struct(("topics", _topics(Struct(("partition", INT32), ("error", INT16),
                                                        ("offsets", Array(INT64)))))),
    (METADATA, 0): Struct(("brokers", Array(Struct(("node_id", INT32), ("host", STRING), ("port", INT32)))),
                          ("topics", Array(Struct(("error", INT16), ("topic", STRING),
                                                  ("partitions", Array(Struct(("error", INT16),
                                                                              ("partition", INT32),
                                                                              ("leader", INT32),
                                                                              ("replicas", Array(INT32)),
                                                                              ("isr", Array(INT32))))))))),
    (OFFSET_COMMIT, 1): Struct(("topics", _topics(Struct(("partition", INT32), ("error", INT16))))),
    (OFFSET_FETCH, 1): Struct(("topics", _topics(Struct(("partition", INT32), ("offset", INT64),
                                                        ("metadata", NSTRING), ("error", INT16))))),
    (FIND_COORDINATOR, 0): Struct(("error", INT16), ("node_id", INT32), ("host", STRING), ("port", INT32)),
    (JOIN_GROUP, 0): Struct(("error", INT16), ("generation", INT32), ("protocol", STRING), ("leader", STRING),
                            ("member", STRING),
                            ("members", Array(Struct(("member", STRING), ("metadata", _Bytes(False)))))),
    (HEARTBEAT, 0): Struct(("error", INT16)),
    (LEAVE_GROUP, 0): Struct(("error", INT16)),
    (SYNC_GROUP, 0): Struct(("error", INT16), ("assignment", _Bytes(False))),
    (API_VERSIONS, 0): Struct(("error", INT16),
                              ("versions", Array(Struct(("api_key", INT16), ("min", INT16), ("max", INT16))))),
}

# magic allowed inside a Produce request of a given version
PRODUCE_MAGIC = {0: (0,), 1: (0,), 2: (0, 1)}

SUBSCRIPTION = Struct(("version", INT16), ("topics", Array(STRING)), ("user_data", BYTES))
ASSIGNMENT = Struct(("version", INT16),
                    ("topics", Array(Struct(("topic", STRING), ("partitions", Array(INT32))))),
                    ("user_data", BYTES))


def encode_request(api_key, version, correlation_id, client_id, body):
    schema = REQ[(api_key, version)]
    return (INT16.enc(api_key) + INT16.enc(version) + INT32.enc(correlation_id) + NSTRING.enc(client_id)
            + schema.enc(body))


def parse_request_header(data):
    r = Reader(data)
    api_key = INT16.dec(r)
    version = INT16.dec(r)
    corr = INT32.dec(r)
    n = INT16.dec(r)
    if n < -1:
        raise ParseError("client id length %d" % n)
    client_id = None if n == -1 else bytes(r.take(n))
    return api_key, version, corr, client_id, r


def parse_request(data, check_magic=True):
    """Strict parse of a request frame (without the 4-byte size prefix).
    client_id is returned as raw bytes (or None) so callers can compare
    byte-for-byte.  check_magic=False skips only the rule tying the message
    format to the Produce version (the simulated broker needs the content of
    such a request to answer it; the rule violation is reported separately by
    magic_violation())."""
    api_key, version, corr, client_id, r = parse_request_header(data)
    if client_id is not None:
        try:
            client_id.decode("utf-8")
        except UnicodeDecodeError as e:
            raise ParseError("client id is not UTF-8: %s" % e)
    schema = REQ.get((api_key, version))
    if schema is None:
        raise ParseError("unsupported api %d version %d" % (api_key, version))
    body = schema.dec(r)
    if r.remaining():
        raise ParseError("%d trailing bytes after %s v%d request body" % (
            r.remaining(), API_NAMES.get(api_key, api_key), version))
    if api_key == PRODUCE and check_magic:
        allowed = PRODUCE_MAGIC[version]
        for t in body["topics"]:
            for p in t["partitions"]:
                recs = p["records"]
                if recs is None:
                    raise ParseError("null record set in produce request")
                for m in recs:
                    if m["magic"] not in allowed:
                        raise ParseError("magic %d message in Produce v%d (allowed %r)" % (
                            m["magic"], version, allowed))
    if api_key == FETCH and body["replica_id"] != -1:
        raise ParseError("consumer fetch with replica id %d" % body["replica_id"])
    if api_key == LIST_OFFSETS and body["replica_id"] != -1:
        raise ParseError("consumer list-offsets with replica id %d" % body["replica_id"])
    return {"api_key": api_key, "api_version": version, "correlation_id": corr, "client_id": client_id,
            "body": body}


def magic_violation(parsed):
    """None, or a description of messages whose format the Produce version does not allow."""
    if parsed["api_key"] != PRODUCE or parsed["body"] is None:
        return None
    allowed = PRODUCE_MAGIC[parsed["api_version"]]
    for t in parsed["body"]["topics"]:
        for p in t["partitions"]:
            for m in p["records"] or []:
                if m["magic"] not in allowed:
                    return "magic %d message in Produce v%d (allowed %r)" % (m["magic"], parsed["api_version"],
                                                                              allowed)
    return None


def encode_response(api_key, version, correlation_id, body):
    return INT32.enc(correlation_id) + RESP[(api_key, version)].enc(body)


def parse_response(api_key, version, data):
    r = Reader(data)
    corr = INT32.dec(r)
    body = RESP[(api_key, version)].dec(r)
    if r.remaining():
        raise ParseError("%d trailing bytes after response" % r.remaining())
    return corr, body


def frame(payload):
    return UINT32.enc(len(payload)) + payload


def selftest():
    """encode o parse = id on a small enumerated corpus; CRC against zlib."""
    n = 0
    ms = [msg(0, None, b"a"), msg(1, b"k", None), msg(2, b"", b"")]
    for magic in (0, 1):
        plain = [dict(m, magic=magic, timestamp=(5 if magic else None)) for m in ms]
        assert parse_message_set(encode_message_set(plain)) == plain
        for codec in (1, 2):
            w = msg(7, None, None, magic=magic, attributes=codec, inner=plain, timestamp=(9 if magic else None))
            back = parse_message_set(encode_message_set([w]))
            assert back[0]["inner"] == plain, back
            n += 1
    w1 = msg(1002, None, None, magic=1, attributes=1, timestamp=1,
             inner=[msg(i, None, b"x%d" % i, magic=1, timestamp=1) for i in range(3)])
    assert [m["offset"] for m in flatten([w1])] == [1000, 1001, 1002]
    bodies = {
        (PRODUCE, 2): {"acks": 1, "timeout": 100, "topics": [{"topic": "t", "partitions": [
            {"partition": 0, "records": [msg(0, b"k", b"v", magic=1, timestamp=3)]}]}]},
        (FETCH, 0): {"replica_id": -1, "max_wait": 1, "min_bytes": 2, "topics": [
            {"topic": "t", "partitions": [{"partition": 1, "offset": 5, "max_bytes": 10}]}]},
        (METADATA, 0): {"topics": ["a", "b"]},
        (OFFSET_COMMIT, 1): {"group": "g", "generation": 1, "member": "m", "topics": [
            {"topic": "t", "partitions": [{"partition": 0, "offset": 9, "timestamp": -1, "metadata": None}]}]},
        (JOIN_GROUP, 0): {"group": "g", "session_timeout": 1, "member": "", "protocol_type": "consumer",
                          "protocols": [{"name": "consumer", "metadata": b"xx"}]},
        (API_VERSIONS, 0): {},
    }
    for (k, v), body in bodies.items():
        enc = encode_request(k, v, 77, "cid", body)
        p = parse_request(enc)
        assert p["body"] == body and p["correlation_id"] == 77 and p["client_id"] == b"cid", (k, v, p)
        try:
            parse_request(enc + b"\0")
        except ParseError:
            pass
        else:
            raise AssertionError("trailing byte accepted")
        n += 1
    for (k, v), schema in RESP.items():
        pass
    body = {"error": 0, "versions": [{"api_key": 0, "min": 0, "max": 7}]}
    assert parse_response(API_VERSIONS, 0, encode_response(API_VERSIONS, 0, 5, body)) == (5, body)
    return n


if __name__ == "__main__":
    print("refkafka selftest ok:", selftest())
