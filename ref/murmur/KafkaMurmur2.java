// Ground truth for C18: Kafka's org.apache.kafka.common.utils.Utils.murmur2, transcribed
// statement by statement, executed on the JVM so that int overflow and >>> are Java's own.
import java.io.*;

public class KafkaMurmur2 {
    public static int murmur2(final byte[] data) {
        int length = data.length;
        int seed = 0x9747b28c;
        // 'm' and 'r' are mixing constants generated offline.
        final int m = 0x5bd1e995;
        final int r = 24;
        // Initialize the hash to a random value
        int h = seed ^ length;
        int length4 = length / 4;
        for (int i = 0; i < length4; i++) {
            final int i4 = i * 4;
            int k = (data[i4 + 0] & 0xff) + ((data[i4 + 1] & 0xff) << 8) + ((data[i4 + 2] & 0xff) << 16)
                    + ((data[i4 + 3] & 0xff) << 24);
            k *= m;
            k ^= k >>> r;
            k *= m;
            h *= m;
            h ^= k;
        }
        // Handle the last few bytes of the input array
        switch (length % 4) {
            case 3:
                h ^= (data[(length & ~3) + 2] & 0xff) << 16;
            case 2:
                h ^= (data[(length & ~3) + 1] & 0xff) << 8;
            case 1:
                h ^= data[length & ~3] & 0xff;
                h *= m;
        }
        h ^= h >>> 13;
        h *= m;
        h ^= h >>> 15;
        return h;
    }

    static byte[] unhex(String s) {
        byte[] b = new byte[s.length() / 2];
        for (int i = 0; i < b.length; i++) b[i] = (byte) Integer.parseInt(s.substring(2 * i, 2 * i + 2), 16);
        return b;
    }

    public static void main(String[] a) throws Exception {
        if (a[0].equals("vectors")) {
            // Kafka's own unit-test vectors (UtilsTest.testMurmur2)
            String[] keys = {"21", "foobar", "a-little-bit-long-string", "a-little-bit-longer-string",
                    "lkjh234lh9fiuh90y23oiuhsafujhadof229phr9h19h89h8", "abc"};
            int[] want = {-973932308, -790332482, -985981536, -1486304829, -58897971, 479470107};
            for (int i = 0; i < keys.length; i++) {
                int got = murmur2(keys[i].getBytes("UTF-8"));
                if (got != want[i]) { System.out.println("MISMATCH " + keys[i] + " " + got); System.exit(1); }
            }
            System.out.println("vectors ok");
        } else if (a[0].equals("enum")) {
            // enum <alphabet hex> <maxlen> <outfile>: every key over the alphabet, length 0..maxlen,
            // shorter first, then lexicographic by alphabet index (first byte most significant)
            byte[] alpha = unhex(a[1]);
            int maxlen = Integer.parseInt(a[2]);
            DataOutputStream out = new DataOutputStream(new BufferedOutputStream(new FileOutputStream(a[3]), 1 << 20));
            for (int len = 0; len <= maxlen; len++) {
                int[] idx = new int[len];
                byte[] key = new byte[len];
                for (int i = 0; i < len; i++) key[i] = alpha[0];
                while (true) {
                    out.writeInt(murmur2(key));
                    int p = len - 1;
                    while (p >= 0) {
                        idx[p]++;
                        if (idx[p] < alpha.length) { key[p] = alpha[idx[p]]; break; }
                        idx[p] = 0; key[p] = alpha[0]; p--;
                    }
                    if (p < 0) break;
                }
            }
            out.close();
        } else if (a[0].equals("stdin")) {
            BufferedReader in = new BufferedReader(new InputStreamReader(System.in));
            String line;
            StringBuilder sb = new StringBuilder();
            while ((line = in.readLine()) != null) sb.append(murmur2(unhex(line.trim()))).append('\n');
            System.out.print(sb);
        }
    }
}
