"""SimCluster -- a small Kafka cluster as the properties need it (DESIGN.md
section 3.2, Appendix B).  It parses requests and builds responses only through
the independent reference codec (ref/refkafka.py).  Every default answer is the
correct one; every incorrect or absent answer is an explicit deviation chosen by
the explorer, and is journalled as such.
"""
from ref import refkafka as rk


class Entry(object):
    """One stored log entry: a plain message or a compressed wrapper."""
    __slots__ = ("first", "last", "data", "leaves")

    def __init__(self, first, last, data, leaves):
        self.first = first
        self.last = last
        self.data = data  # bytes as a fetch returns them (offset + size + message)
        self.leaves = leaves  # [(abs offset, key, value)]


class PartitionLog(object):
    def __init__(self, fmt_magic=0):
        self.entries = []
        self.log_start = 0
        self.next_offset = 0
        self.magic = fmt_magic

    # -- building logs for consumer scenarios
    def append_plain(self, key, value, offset=None, magic=None, timestamp=None):
        magic = self.magic if magic is None else magic
        off = self.next_offset if offset is None else offset
        assert off >= self.next_offset
        if not self.entries and offset is not None:
            self.log_start = off
        m = rk.msg(off, key, value, magic=magic, timestamp=(timestamp if magic else None))
        self.entries.append(Entry(off, off, rk.encode_message_set([m]), [(off, key, value)]))
        self.next_offset = off + 1
        return off

    def append_wrapper(self, kvs, codec, magic=None, offsets=None, timestamp=5):
        """Store kvs as one compressed wrapper; offsets (absolute, ascending) default to contiguous."""
        magic = self.magic if magic is None else magic
        if offsets is None:
            offsets = [self.next_offset + i for i in range(len(kvs))]
        assert offsets[0] >= self.next_offset
        if not self.entries and offsets[0] != 0:
            self.log_start = offsets[0]
        last = offsets[-1]
        if magic == 0:
            inner = [rk.msg(o, k, v, magic=0) for o, (k, v) in zip(offsets, kvs)]
        else:
            inner = [rk.msg(o - offsets[0], k, v, magic=1, timestamp=timestamp) for o, (k, v) in zip(offsets, kvs)]
            # relative offsets are counted from the first inner message; wrapper carries the last absolute offset
        w = rk.msg(last, None, None, magic=magic, attributes=codec, inner=inner,
                   timestamp=(timestamp if magic else None))
        self.entries.append(Entry(offsets[0], last, rk.encode_message_set([w]),
                                  [(o, k, v) for o, (k, v) in zip(offsets, kvs)]))
        self.next_offset = last + 1

    def all_leaves(self):
        out = []
        for e in self.entries:
            out.extend(e.leaves)
        return out

    def fetch_bytes(self, offset, max_bytes):
        """Concatenation of stored entries from the one containing `offset`, cut at max_bytes (mid-entry)."""
        out = []
        size = 0
        for e in self.entries:
            if e.last < offset:
                continue
            out.append(e.data)
            size += len(e.data)
            if size >= max_bytes:
                break
        data = b"".join(out)
        if max_bytes >= 0:
            data = data[:max_bytes]
        return data


class Req(object):
    # no __slots__: monitors attach their own marks

    def __init__(self):
        self.parked = False
        self.answered = False
        self.answer = None
        self.injected = None
        self.delivered = False
        self.grammar_error = None


class ServerConn(object):
    def __init__(self, broker_id):
        self.broker_id = broker_id
        self.queue = []  # unanswered Req objects, FIFO


class SimCluster(object):
    def __init__(self, clock, net):
        self.clock = clock
        self.net = net
        self.brokers = {}  # id -> dict(host, port, up, versions)
        self.logs = {}  # (topic, partition) -> PartitionLog
        self.leader = {}  # (topic, partition) -> broker id | -1
        self.topic_error = {}  # topic -> metadata-level error code override
        self.meta_order = "asc"  # order of a topic's partitions in Metadata answers: asc | reverse | rotate
        self.coordinator = {}  # group -> broker id
        self.offsets = {}  # (group, topic, partition) -> (offset, metadata)
        self.groups = {}  # group -> GroupState (managed groups only)
        self.group_defaults = {}  # group -> kwargs for GroupState (leader preference, phantom member)
        self.journal = []  # every Req ever received, in arrival order
        self.modes = []  # sticky faults: dicts(api, topic, partition, broker, err|silent, budget)
        self.default_coordinator = None
        net.frame_handlers.append(self._on_frame)
        net.close_handlers.append(self._on_close)
        self.produce_applied = []  # (time, broker, topic, partition, base_offset, [(key, value)], corr, cid)

    # ------------------------------------------------------------------ construction
    def add_broker(self, node_id, host=None, port=None, versions="modern"):
        self.brokers[node_id] = {"host": host or "kafka%d" % node_id, "port": port or (9092 + node_id),
                                 "up": True, "versions": versions}
        if self.default_coordinator is None:
            self.default_coordinator = node_id

    def add_partition(self, topic, partition, leader, magic=0):
        self.logs[(topic, partition)] = PartitionLog(magic)
        self.leader[(topic, partition)] = leader

    def topics(self):
        return sorted(set(t for t, _p in self.logs))

    def partitions(self, topic):
        return sorted(p for t, p in self.logs if t == topic)

    def broker_at(self, host, port):
        for bid, b in self.brokers.items():
            if b["host"] == host and b["port"] == port:
                return bid
        return None

    def listening(self, host, port):
        bid = self.broker_at(host, port)
        return bid is not None and self.brokers[bid]["up"]

    def coordinator_of(self, group):
        return self.coordinator.get(group, self.default_coordinator)

    # ------------------------------------------------------------------ network glue
    def attach(self, conn):
        bid = self.broker_at(conn.host, conn.port)
        conn.server = ServerConn(bid)
        return conn.server

    def _on_frame(self, conn, payload):
        if conn.server is None:
            return
        r = Req()
        r.seq = len(self.journal)
        r.cid = conn.cid
        r.broker = conn.server.broker_id
        r.raw = payload
        r.time = self.clock.seconds()
        try:
            r.parsed = rk.parse_request(payload, check_magic=False)
            r.grammar_error = rk.magic_violation(r.parsed)
        except rk.ParseError as e:
            r.grammar_error = str(e)
            r.parsed = None
            try:
                k, v, c, cid, _r = rk.parse_request_header(payload)
                r.parsed = {"api_key": k, "api_version": v, "correlation_id": c, "client_id": cid, "body": None}
            except rk.ParseError:
                pass
        self.journal.append(r)
        conn.server.queue.append(r)
        self._after_arrival(conn, r)

    def _after_arrival(self, conn, r):
        p = r.parsed
        if p is None or p["body"] is None:
            return
        m = self.find_mode(r)
        if m is not None and m.get("delay"):
            # a slow broker: the answer (and everything behind it on this connection) is held back for a while
            if m.get("budget", -1) > 0:
                m["budget"] -= 1
            r.parked = True
            r.delayed = True

            def release():
                r.parked = False
            release.__qualname__ = "SimCluster.unpark"
            self.clock.callLater(m["delay"], release)
            return
        if p["api_key"] == rk.PRODUCE and p["body"]["acks"] == 0:
            # no answer will ever be sent: process as soon as it reaches the head of the queue
            self._drain_noreply(conn)
        elif p["api_key"] == rk.FETCH:
            self._maybe_park(conn, r)

    def _drain_noreply(self, conn):
        q = conn.server.queue
        while q and q[0].parsed and q[0].parsed.get("body") and q[0].parsed["api_key"] == rk.PRODUCE and \
                q[0].parsed["body"]["acks"] == 0:
            r = q.pop(0)
            m = self.find_mode(r)
            if m is not None and m.get("silent"):
                r.injected = "swallowed"
            else:
                r.answer = self._apply(r, None if m is None else m.get("err"), None)
            r.answered = True

    def _on_close(self, conn):
        if conn.server is not None:
            for r in conn.server.queue:
                r.injected = r.injected or "connection-closed"
            conn.server.queue = []

    # ------------------------------------------------------------------ long-poll emulation
    def _fetch_has_data(self, r):
        body = r.parsed["body"]
        for t in body["topics"]:
            for p in t["partitions"]:
                tp = (t["topic"], p["partition"])
                log = self.logs.get(tp)
                if log is None or self.leader.get(tp) != r.broker:
                    return True  # an error answer is immediate
                if p["offset"] != log.next_offset:
                    return True  # data, or out of range: immediate
        return False

    def _maybe_park(self, conn, r):
        if self._fetch_has_data(r):
            return
        r.parked = True
        wait = max(r.parsed["body"]["max_wait"], 1) / 1000.0

        def unpark():
            r.parked = False
        unpark.__qualname__ = "SimCluster.unpark"
        self.clock.callLater(wait, unpark)

    def wake_fetches(self, tp):
        for r in self.journal:
            if r.parked and not r.answered and r.parsed and r.parsed["api_key"] == rk.FETCH:
                if self._fetch_has_data(r):
                    r.parked = False

    # ------------------------------------------------------------------ what can be answered now
    def answerable(self, conn):
        """The oldest unanswered request on this connection, if the broker may answer it now."""
        if conn.server is None or not conn.server.queue:
            return None
        r = conn.server.queue[0]
        if r.parked:
            return None
        return r

    def find_mode(self, r):
        if r.parsed is None:
            return None
        for m in self.modes:
            if m.get("budget", 1) == 0:
                continue
            if m.get("delay") and getattr(r, "delayed", False):
                continue
            if m.get("api") is not None and m["api"] != r.parsed["api_key"]:
                continue
            if m.get("broker") is not None and m["broker"] != r.broker:
                continue
            return m
        return None

    # ------------------------------------------------------------------ answering
    @staticmethod
    def corrupt_records(data, k):
        """Flip one bit in the last byte of the k-th complete top-level message of a message set (a bit error in
        flight: the message's CRC no longer matches).  Returns data unchanged when there is no such message."""
        pos, i = 0, 0
        while pos + 12 <= len(data):
            size = int.from_bytes(data[pos + 8:pos + 12], "big")
            end = pos + 12 + size
            if size < 0 or end > len(data):
                break
            if i == k:
                return data[:end - 1] + bytes([data[end - 1] ^ 1]) + data[end:]
            pos, i = end, i + 1
        return data

    def reply(self, conn, err=None, only=None, corrupt=None):
        """Answer the oldest unanswered request on `conn`.  err: error code to inject (state not changed for
        the affected partitions); only: (topic, partition) the injection is limited to."""
        r = conn.server.queue.pop(0)
        if err is None:
            m = self.find_mode(r)
            if m is not None:
                if m.get("budget", -1) > 0:
                    m["budget"] -= 1
                if m.get("silent"):
                    r.injected = "swallowed"
                    r.answered = True
                    return r
                err = m.get("err")
                only = m.get("only")
                if only is not None:
                    only = tuple(only)
        r.injected = None if err is None else ("err=%d" % err if only is None else "err=%d@%s/%d" % (
            (err,) + tuple(only)))
        body = self._apply(r, err, only)
        r.answer = body
        r.answered = True
        if corrupt is not None and body is not None and r.parsed["api_key"] == rk.FETCH:
            r.injected = "corrupt=%d" % corrupt
            body = dict(body, topics=[dict(t, partitions=[dict(p_, records=self.corrupt_records(p_["records"],
                                                                                                  corrupt))
                                                          for p_ in t["partitions"]]) for t in body["topics"]])
        if body is not None:
            p = r.parsed
            conn.b2c += rk.frame(rk.encode_response(p["api_key"], p["api_version"], p["correlation_id"], body))
        self._drain_noreply(conn)
        return r

    def swallow(self, conn):
        r = conn.server.queue.pop(0)
        r.injected = "swallowed"
        r.answered = True
        self._drain_noreply(conn)
        return r

    def _apply(self, r, err, only):
        p = r.parsed
        if p is None or p["body"] is None:
            return None
        api = p["api_key"]
        fn = getattr(self, "_api_%d" % api, None)
        if fn is None:
            return None
        return fn(r, p["api_version"], p["body"], err, only)

    def _inj(self, err, only, tp):
        if err is None:
            return None
        if only is None or tuple(only) == tuple(tp):
            return err
        return None

    # -- ApiVersions
    def _api_18(self, r, v, body, err, only):
        table = self.brokers[r.broker]["versions"]
        if err is not None:
            return {"error": err, "versions": []}
        return {"error": 0, "versions": [{"api_key": k, "min": lo, "max": hi} for k, lo, hi in table]}

    # -- Metadata
    def metadata_body(self, topics):
        brokers = [{"node_id": bid, "host": b["host"], "port": b["port"]} for bid, b in sorted(self.brokers.items())
                   if b["up"]]
        names = list(topics) if topics else self.topics()
        out = []
        for name in names:
            parts = self.partitions(name)
            if name in self.topic_error:
                out.append({"error": self.topic_error[name], "topic": name, "partitions": []})
                continue
            if not parts:
                out.append({"error": 3, "topic": name, "partitions": []})
                continue
            plist = []
            if self.meta_order == "reverse":  # a broker lists partitions in no particular order
                parts = list(reversed(parts))
            elif self.meta_order == "rotate":
                parts = list(parts[1:]) + list(parts[:1])
            for pn in parts:
                ld = self.leader[(name, pn)]
                if ld != -1 and (ld not in self.brokers or not self.brokers[ld]["up"]):
                    ld = -1
                plist.append({"error": 5 if ld == -1 else 0, "partition": pn, "leader": ld,
                              "replicas": [] if ld == -1 else [ld], "isr": [] if ld == -1 else [ld]})
            out.append({"error": 0, "topic": name, "partitions": plist})
        if self.meta_order != "asc":
            out.reverse()
            brokers.reverse()
        return {"brokers": brokers, "topics": out}

    def _api_3(self, r, v, body, err, only):
        b = self.metadata_body(body["topics"])
        if err is not None:
            for t in b["topics"]:
                if only is None or only[0] == t["topic"]:
                    t["error"] = err
                    t["partitions"] = []
        return b

    # -- Produce
    def _api_0(self, r, v, body, err, only):
        topics = []
        for t in body["topics"]:
            parts = []
            for p in t["partitions"]:
                tp = (t["topic"], p["partition"])
                e = self._inj(err, only, tp)
                base = -1
                if e is None:
                    log = self.logs.get(tp)
                    if log is None:
                        e = 3
                    elif self.leader.get(tp) != r.broker:
                        e = 6
                    elif isinstance(self.brokers[r.broker]["versions"], str) and any(
                            m["magic"] != 0 for m in p["records"]):
                        e = 2  # a pre-0.10 broker does not know message format 1: CorruptMessage
                    else:
                        e = 0
                        base = log.next_offset
                        kvs = [(m["key"], m["value"]) for m in rk.flatten(p["records"], absolute=False)]
                        for rec in p["records"]:
                            if rec["inner"] is not None:
                                inner = [(m["key"], m["value"]) for m in rk.flatten([rec], absolute=False)]
                                log.append_wrapper(inner, rec["attributes"] & 7, magic=rec["magic"])
                            else:
                                log.append_plain(rec["key"], rec["value"], magic=rec["magic"],
                                                 timestamp=rec["timestamp"])
                        self.produce_applied.append((self.clock.seconds(), r.broker, tp[0], tp[1], base, kvs,
                                                     r.parsed["correlation_id"], r.cid))
                        self.wake_fetches(tp)
                d = {"partition": p["partition"], "error": e, "offset": base}
                if v == 2:
                    d["log_append_time"] = -1
                parts.append(d)
            topics.append({"topic": t["topic"], "partitions": parts})
        if body["acks"] == 0:
            return None
        out = {"topics": topics}
        if v >= 1:
            out["throttle_ms"] = 0
        return out

    # -- Fetch
    def _api_1(self, r, v, body, err, only):
        topics = []
        for t in body["topics"]:
            parts = []
            for p in t["partitions"]:
                tp = (t["topic"], p["partition"])
                e = self._inj(err, only, tp)
                data = b""
                hw = -1
                if e is None:
                    log = self.logs.get(tp)
                    if log is None:
                        e = 3
                    elif self.leader.get(tp) != r.broker:
                        e = 6
                    elif p["offset"] < log.log_start or p["offset"] > log.next_offset:
                        e = 1
                        hw = log.next_offset
                    else:
                        e = 0
                        hw = log.next_offset
                        data = log.fetch_bytes(p["offset"], p["max_bytes"])
                parts.append({"partition": p["partition"], "error": e, "high_watermark": hw, "records": data})
            topics.append({"topic": t["topic"], "partitions": parts})
        out = {"topics": topics}
        if v >= 1:
            out["throttle_ms"] = 0
        return out

    # -- ListOffsets
    def _api_2(self, r, v, body, err, only):
        topics = []
        for t in body["topics"]:
            parts = []
            for p in t["partitions"]:
                tp = (t["topic"], p["partition"])
                e = self._inj(err, only, tp)
                offs = []
                if e is None:
                    log = self.logs.get(tp)
                    if log is None:
                        e = 3
                    elif self.leader.get(tp) != r.broker:
                        e = 6
                    else:
                        e = 0
                        offs = [log.log_start] if p["timestamp"] == -2 else [log.next_offset]
                parts.append({"partition": p["partition"], "error": e, "offsets": offs})
            topics.append({"topic": t["topic"], "partitions": parts})
        return {"topics": topics}

    # -- FindCoordinator
    def _api_10(self, r, v, body, err, only):
        if err is not None:
            return {"error": err, "node_id": -1, "host": "", "port": -1}
        bid = self.coordinator_of(body["group"])
        if bid is None or not self.brokers[bid]["up"]:
            return {"error": 15, "node_id": -1, "host": "", "port": -1}
        b = self.brokers[bid]
        return {"error": 0, "node_id": bid, "host": b["host"], "port": b["port"]}

    # -- OffsetCommit v1
    def _api_8(self, r, v, body, err, only):
        group = body["group"]
        topics = []
        gerr = None
        if self.coordinator_of(group) != r.broker:
            gerr = 16
        elif group in self.groups:
            gerr = self.groups[group].validate(body["member"], body["generation"])
        for t in body["topics"]:
            parts = []
            for p in t["partitions"]:
                tp = (t["topic"], p["partition"])
                e = self._inj(err, only, tp)
                if e is None:
                    e = gerr if gerr is not None else 0
                    if e == 0:
                        self.offsets[(group,) + tp] = (p["offset"], p["metadata"])
                parts.append({"partition": p["partition"], "error": e})
            topics.append({"topic": t["topic"], "partitions": parts})
        return {"topics": topics}

    # -- OffsetFetch v1
    def _api_9(self, r, v, body, err, only):
        group = body["group"]
        topics = []
        for t in body["topics"]:
            parts = []
            for p in t["partitions"]:
                tp = (t["topic"], p["partition"])
                e = self._inj(err, only, tp)
                off, md = -1, ""
                if e is None:
                    if self.coordinator_of(group) != r.broker:
                        e = 16
                    else:
                        e = 0
                        off, md = self.offsets.get((group,) + tp, (-1, ""))
                parts.append({"partition": p["partition"], "offset": off, "metadata": md if md is not None else "",
                              "error": e})
            topics.append({"topic": t["topic"], "partitions": parts})
        return {"topics": topics}

    # -- group membership (delegated to GroupState, see ref/simgroup.py)
    def _group_api(self, name, r, body, err):
        from ref import simgroup
        return simgroup.handle(self, name, r, body, err)

    def _api_11(self, r, v, body, err, only):
        return self._group_api("join", r, body, err)

    def _api_14(self, r, v, body, err, only):
        return self._group_api("sync", r, body, err)

    def _api_12(self, r, v, body, err, only):
        return self._group_api("heartbeat", r, body, err)

    def _api_13(self, r, v, body, err, only):
        return self._group_api("leave", r, body, err)

    # ------------------------------------------------------------------ cluster events
    def move_leader(self, tp, new_leader):
        self.leader[tp] = new_leader

    def restart_broker(self, bid):
        """Connections to the broker drop (the harness delivers the closes); it keeps listening."""
        return [c for c in self.net.open_conns() if c.server is not None and c.server.broker_id == bid]


MODERN = [(0, 0, 7), (1, 0, 11), (2, 0, 5), (3, 0, 8), (8, 0, 7), (9, 0, 5), (10, 0, 2), (11, 0, 5), (12, 0, 3),
          (13, 0, 3), (14, 0, 3), (18, 0, 3)]
