"""Group coordinator of the simulated cluster: one real member (the afkak
client under test) plus an optional phantom member played by the simulator
(DESIGN.md Appendix B).  Join barrier, generation counter, leader election,
sync, heartbeat, leave, eviction, commit validation.
"""
from ref import refkafka as rk

PHANTOM = "phantom-0"


class GroupState(object):
    def __init__(self, name, leader="real", phantom_topics=None, phantom_active=False):
        self.name = name
        self.generation = 0
        self.members = {}  # member id -> subscription bytes
        self.leader_pref = leader  # "real" | "phantom"
        self.leader = None
        self.phase = "empty"  # empty | awaiting_sync | stable
        self.assignments = {}  # member id -> assignment bytes
        self.rebalance_pending = False
        self.phantom_topics = list(phantom_topics or [])
        self.phantom_active = phantom_active
        self.next_member = 0
        self.history = []  # (event, generation, member) for monitors
        self.real_id = None
        self.synced = set()

    # -- validation used by OffsetCommit and the group APIs
    def validate(self, member, generation):
        if member == "" and generation == -1:
            return 0 if not self.members else 25
        if member not in self.members:
            return 25
        if generation != self.generation:
            return 22
        if self.rebalance_pending or self.phase != "stable":
            return 27
        return 0

    def subscription_of(self, member):
        try:
            return rk.SUBSCRIPTION.dec(rk.Reader(self.members[member]))["topics"]
        except Exception:
            return []

    def phantom_metadata(self):
        return rk.SUBSCRIPTION.enc({"version": 0, "topics": self.phantom_topics, "user_data": b""})

    def reference_assignment(self, cluster):
        """What a (phantom) leader hands out: round robin over sorted members, subscribers only."""
        subs = {m: self.subscription_of(m) for m in self.members}
        topics = sorted(set(t for s in subs.values() for t in s))
        tps = sorted((t, p) for t in topics for p in cluster.partitions(t))
        order = sorted(self.members)
        out = {m: {} for m in order}
        i = 0
        for t, p in tps:
            for _ in range(len(order)):
                m = order[i % len(order)]
                i += 1
                if t in subs[m]:
                    out[m].setdefault(t, []).append(p)
                    break
        enc = {}
        for m, tp in out.items():
            enc[m] = rk.ASSIGNMENT.enc({"version": 0, "topics": [{"topic": t, "partitions": ps}
                                                                   for t, ps in sorted(tp.items())],
                                        "user_data": b""})
        return enc


def group_of(cluster, name):
    g = cluster.groups.get(name)
    if g is None:
        g = GroupState(name, **cluster.group_defaults.get(name, {})) if hasattr(cluster, "group_defaults") else \
            GroupState(name)
        cluster.groups[name] = g
    return g


def handle(cluster, api, r, body, err):
    name = body["group"]
    if api == "join":
        empty = {"error": 0, "generation": -1, "protocol": "", "leader": "", "member": body["member"], "members": []}
    if err is not None:
        if api == "join":
            return dict(empty, error=err)
        if api == "sync":
            return {"error": err, "assignment": b""}
        return {"error": err}
    if cluster.coordinator_of(name) != r.broker:
        e = 16
        if api == "join":
            return dict(empty, error=e)
        if api == "sync":
            return {"error": e, "assignment": b""}
        return {"error": e}
    g = group_of(cluster, name)
    if api == "join":
        member = body["member"]
        if member and member not in g.members:
            g.history.append(("join-rejected", g.generation, member))
            return dict(empty, error=25)
        if not member:
            member = "real-%d" % g.next_member
            g.next_member += 1
        g.real_id = member
        meta = body["protocols"][0]["metadata"] if body["protocols"] else b""
        g.members = {member: meta}
        if g.phantom_active:
            g.members[PHANTOM] = g.phantom_metadata()
        g.generation += 1
        g.rebalance_pending = False
        g.phase = "awaiting_sync"
        g.synced = set()
        g.assignments = {}
        g.leader = PHANTOM if (g.leader_pref == "phantom" and g.phantom_active) else member
        g.history.append(("join", g.generation, member))
        members = []
        if g.leader == member:
            members = [{"member": m, "metadata": md} for m, md in sorted(g.members.items())]
        return {"error": 0, "generation": g.generation, "protocol": "consumer", "leader": g.leader,
                "member": member, "members": members}
    member = body["member"]
    if api == "leave":
        if member in g.members:
            del g.members[member]
            g.history.append(("leave", g.generation, member))
            if not [m for m in g.members if m != PHANTOM]:
                g.phase = "empty" if not g.members else g.phase
            return {"error": 0}
        return {"error": 25}
    if member not in g.members:
        return {"error": 25, "assignment": b""} if api == "sync" else {"error": 25}
    if body["generation"] != g.generation:
        return {"error": 22, "assignment": b""} if api == "sync" else {"error": 22}
    if api == "sync":
        if g.rebalance_pending:
            return {"error": 27, "assignment": b""}
        if g.leader == member:
            g.assignments = {a["member"]: a["assignment"] for a in body["assignments"]}
        else:
            g.assignments = g.reference_assignment(cluster)
        g.phase = "stable"
        g.synced.add(member)
        g.history.append(("sync", g.generation, member))
        return {"error": 0, "assignment": g.assignments.get(member, rk.ASSIGNMENT.enc(
            {"version": 0, "topics": [], "user_data": b""}))}
    if api == "heartbeat":
        if g.rebalance_pending:
            return {"error": 27}
        if g.phase != "stable":
            return {"error": 27}
        return {"error": 0}
    raise ValueError(api)


# ---- cluster-side events (deviations chosen by the explorer)
def phantom_joins(cluster, name):
    g = group_of(cluster, name)
    g.phantom_active = True
    g.rebalance_pending = True
    g.history.append(("phantom-joins", g.generation, PHANTOM))


def phantom_leaves(cluster, name):
    g = group_of(cluster, name)
    g.phantom_active = False
    g.members.pop(PHANTOM, None)
    g.rebalance_pending = True
    g.history.append(("phantom-leaves", g.generation, PHANTOM))


def evict_real(cluster, name):
    g = group_of(cluster, name)
    if g.real_id in g.members:
        del g.members[g.real_id]
        g.rebalance_pending = bool(g.members)
        g.history.append(("evict", g.generation, g.real_id))


def current_assignment(cluster, name):
    """{topic: [partitions]} the coordinator currently holds for the real member (stable only)."""
    g = cluster.groups.get(name)
    if g is None or g.phase != "stable" or g.real_id not in g.members:
        return None
    blob = g.assignments.get(g.real_id)
    if blob is None:
        return {}
    a = rk.ASSIGNMENT.dec(rk.Reader(blob))
    return {t["topic"]: list(t["partitions"]) for t in a["topics"]}
