#!/usr/bin/env python3
"""Regenerate MANIFEST.json from the table below (keeps it valid at all times)."""
import json, os
ROOT = os.path.dirname(os.path.abspath(__file__))
ALL = ["C%02d" % i for i in range(1, 21)]

# id -> (category, technique, text, note, design_ref)
CHECKS = {
 "C15": ("exploration", "bounded-exhaustive enumeration of inputs through the real leader path against a reference codec",
         "Every member set (<=3 quick / <=4 thorough ids, every order), every subscription map and every partition map from a small menu is pushed through the real decode_join_group_response -> generate_assignments -> encode_sync_group_request -> decode_assignment path; the oracle checks exactly-once ownership, subscriber-only, balance, order independence and per-member decode. Exhaustive within the stated scope; input enumeration is the right level because the property quantifies over inputs only.",
         "small-scope hypothesis; refkafka (independent table-driven codec) builds and parses the frames", "5/C15"),
}
NOT_YET = "check not built yet in this revision (build in progress; see DESIGN.md section 5)"

def main():
    checks = []
    for pid in ALL:
        if pid not in CHECKS:
            continue
        cat, tech, text, note, ref = CHECKS[pid]
        checks.append({
            "property_id": pid,
            "quick_cmd": "bin/check %s --tier quick" % pid,
            "thorough_cmd": "bin/check %s --tier thorough" % pid,
            "evidence_file": "evidence/%s.json" % pid,
            "replay_cmd_template": "bin/check %s --replay {path}" % pid,
            "engine": "afkak-mc",
            "level_claimed": {"category": cat, "text": text, "design_ref": "DESIGN.md section " + ref},
            "level_note": note,
            "technique": tech,
        })
    m = {
        "version": 1,
        "setup_cmd": "bin/setup",
        "hooks": {
            "guard": "AFKAK_VERIF",
            "enable": "no source hooks exist: harness processes monkey-patch module attributes (afkak.client.random, afkak.kafkacodec.time, afkak.partitioner.randint) and import afkak from /repo's working tree; AFKAK_VERIF=1 is exported for uniformity only",
            "baseline_off_cmd": "cd /repo && /venv/bin/python -m pytest -q -p no:cacheprovider --timeout=900",
            "source_commits": [],
            "add_only": True,
        },
        "engines": [{
            "name": "afkak-mc",
            "path": "mc/",
            "serves_properties": sorted(CHECKS),
            "kind_free_text": "purpose-built explicit-state explorer for Twisted code: deviation-bounded stateless DFS and fingerprinted BFS over the real afkak objects on a virtual clock/network/Kafka cluster, plus bounded-exhaustive input enumeration against an independent reference codec",
        }],
        "checks": checks,
        "not_applicable": [{"property_id": p, "reason": NOT_YET} for p in ALL if p not in CHECKS],
        "notes": "All checks run the real afkak code from /repo's working tree (AFKAK_SRC overrides). See DESIGN.md.",
    }
    with open(os.path.join(ROOT, "MANIFEST.json"), "w") as f:
        json.dump(m, f, indent=1)
    print("MANIFEST.json: %d checks, %d not_applicable" % (len(checks), len(m["not_applicable"])))

if __name__ == "__main__":
    main()
