#!/usr/bin/env python3
"""Regenerate MANIFEST.json from the table below (keeps it valid at all times)."""
import json, os
ROOT = os.path.dirname(os.path.abspath(__file__))
ALL = ["C%02d" % i for i in range(1, 21)]

# id -> (category, technique, text, note, design_ref)
CHECKS = {
 "C16": ("model_checking", "deviation-bounded stateless depth-first exploration of the real ConsumerGroup against a simulated group coordinator with a phantom member",
         "12 configurations (member under test alone or with a phantom member, either as leader; sync/async processor; auto-commit on/off); script start, consume, stop with stop() injectable at every state; deviations: every group error code on JoinGroup/SyncGroup/Heartbeat/OffsetCommit/FindCoordinator/LeaveGroup, silent broker, drop, phantom joins/leaves, eviction, coordinator move, late append, timers and processor completions overtaking I/O; <=1 deviation everywhere and <=2 on a light menu (quick), <=2 / <=3 (thorough). Wire-level monitor: commits carry the latest generation/member and an assigned partition, fetches and processor calls only inside the current assignment, nothing of the old generation pending when JoinGroup is written, one join/sync exchange in flight, heartbeats only while stable, new consumers start from the committed position, after stop() only the leave and graceful commits, and nothing (no request, no timer) after its Deferred fires.",
         "ref/simgroup.py is the coordinator (one real member + phantom); small scope", "5/C16"),
 "C17": ("model_checking", "deviation-bounded stateless depth-first exploration with fault-free continuation as a bounded-liveness oracle on the real ConsumerGroup",
         "A fault is injected at every step of the join protocol (coordinator lookup, topic metadata, join, leader's partition lookup, sync, heartbeat, consumer requests; error codes, silent broker, drop, refused connection, coordinator move, broker restart, phantom joins/leaves, eviction), <=1 fault (+1 schedule deviation) on all and <=2 on a light menu (quick), <=2 / <=3 (thorough), plus 40 transient-outage configurations where the next k metadata / coordinator / join / sync requests are swallowed or rejected; every execution then follows the fault-free default schedule and must reach, within the horizon, a state where the coordinator lists the member in its current generation and its partitions have been consumed, or the start Deferred carries the processor's non-Kafka error; rejoin timers must use a documented backoff.",
         "ref/simgroup.py is the coordinator; liveness is bounded (600-900 virtual seconds, 600 events)", "5/C17"),
 "C08": ("model_checking", "exhaustive enumeration of metadata-response histories on the real KafkaClient plus deviation-bounded DFS of producer and consumer under cluster events",
         "Every sequence of <=3 (quick, thinned) / <=4 (thorough) steps, each a cluster change from a 12-element family followed by a partial or full metadata load, on a warmed-up 3-broker client: after every answer the public view of covered topics must equal the response, other topics unchanged, vanished partitions not alive, connections to brokers missing from a full refresh closed, new connections at the latest address. Self-healing: real Producer and Consumer explored under every sequence of <=2/<=3 leader moves, broker restarts and address changes injected at every point, with the C01/C02 monitors as the end-to-end oracle and a monitor that a request to an invalidated partition is preceded by a metadata request.",
         "SimCluster's Metadata v0 answers define 'what the response said'; small scope", "5/C08"),
 "C07": ("model_checking", "deviation-bounded stateless depth-first exploration of the real KafkaClient's public API over every small cluster layout, payload order, failing-broker subset and reply order",
         "All 14 maps of 4 partitions onto <=3 brokers (plus leaderless variants), every ordering of every payload subset (size 1-3) for produce/fetch and size 2 for list-offsets/offset-fetch/offset-commit, broker-agnostic metadata calls cold, warmed-up and partially connected with every shuffle rotation; deviations: per-broker refuse/drop/silent/error, cross-broker reply order, timers overtaking I/O. The oracle reads the wire and the call result: leader/coordinator routing against the latest metadata delivered, one request per broker per call, responses in payload order, exact partition of the input on partial failure, connected-first and try-everyone before KafkaUnavailableError.",
         "SimCluster is Kafka; <=3 brokers, 4 partitions", "5/C07"),
 "C11": ("model_checking", "deviation-bounded stateless depth-first exploration of timer/reply races on a warmed-up KafkaClient and on the real group member (request timers read from the virtual clock's journal)",
         "48 configurations (timeout 1 s / 10 s, disconnect_on_timeout on/off, connections open or not, six mixes of 1-3 concurrent calls incl. JoinGroup with its 35 s minimum and an acks=0 produce); each broker answer may be prompt, late (the timer overtakes it and the reply is delivered afterwards) or missing, a connection may never establish, replies in any order; <=4 (quick) / <=5 (thorough) deviations. Oracle on virtual time: every call resolves within its bound, timeouts only at the bound and only without a reply, no timer left armed after completion, late replies change nothing, disconnect-on-timeout drops the connection and re-sends the rest once and in order.",
         "virtual time only moves through timer events; hung connection attempts end by the endpoint's own 30 s timeout (afkak relies on it)", "5/C11"),
 "C20": ("model_checking", "deviation-bounded stateless depth-first exploration with close() injectable at every state and every order of the events that follow",
         "19 configurations (1 and 3 brokers, cold/warmed-up, produce over three brokers, fetch, offset commit with coordinator lookup, metadata loads, a full refresh dropping a broker, version discovery); close() may be issued early at every state after <=1 (quick) / <=2 (thorough) faults, then accept/closed/late-reply/timer events in every order. Oracle: everything pending fails in close(), later calls fail at once, no connection attempt or byte after close, no success after close, every connection ends closed, the close Deferred fires once exactly when the last connection goes, metadata view empty. Findings about operations in their bootstrap phase are listed in known_findings.json.",
         "SimCluster is Kafka; small scope", "5/C20"),
 "C14": ("model_checking", "deviation-bounded stateless depth-first exploration where the deviations are exactly the failing answers to the consumer's requests (all failure/success words), plus an exhaustive buffer-size grid",
         "Every word of answers {ok, error 6, out-of-range, timeout, drop} with <=3 (quick) / <=5 (thorough) failures over 72 delay/limit/policy/start configurations, and a grid of 75+ (initial, maximum, message size) combinations crossing the 1 MiB rule change; the oracle reads the consumer->client seam, the virtual clock and the wire: retry delay min(init*1.20205^(k-1), max) with reset on success, no request beyond the attempt limit and no start failure without one, out-of-range handled per policy, fetch sizes x16 up to 1 MiB then x2 capped at the maximum, ConsumerFetchSizeTooSmall only when the maximum is too small, big message delivered.",
         "SimCluster; where the attempt limit and the reset policy conflict (out-of-range counted as a failed attempt) either outcome is accepted", "5/C14"),
 "C02": ("model_checking", "deviation-bounded stateless depth-first exploration of the real Consumer+KafkaClient on a virtual cluster, with an incremental delivery monitor over the ground-truth log",
         "Seven log shapes (plain, compaction gaps, base offset 1000, gzip/snappy wrappers at zero and non-zero base, compacted wrapper, message larger than the buffer) x both message formats x start positions (earliest, numeric incl. mid-wrapper, latest with later appends, committed with/without stored offset) x sync/async processor, fetch buffer of 130 bytes, explored under every schedule with <=1-2 (quick) / <=2-3 (thorough) deviations: error codes on fetch/offset requests, silent broker, drop, refused connection, timers and processor completions overtaking I/O. The monitor requires every invocation to carry exactly the next log entries, never concurrently, one fetch outstanding, and the whole log delivered at quiescence.",
         "SimCluster fetch semantics (cut at max_bytes, whole wrappers); small scope; bounds in the evidence notes", "5/C02"),
 "C03": ("model_checking", "deviation-bounded stateless depth-first exploration with process death as an event at every state, followed by restart from the committed position",
         "Real Consumer with a consumer group: auto-commit by count/time/off, manual commit, shutdown, stop; processor completions that succeed or fail; OffsetCommit error codes, silent broker, drop; and `crash` (all client objects abandoned, fresh KafkaClient+Consumer from OFFSET_COMMITTED) injectable at every state. Checked at the consumer->client seam and at the coordinator: commit value = last processed, nothing delivered-but-unprocessed is ever covered by a commit or by the stored offset (= every crash point), one commit outstanding, last_committed only acknowledged values, resume exactly after the committed message for every committed position of small plain/compressed logs in both formats.",
         "SimCluster offset store; permissive application model; small scope", "5/C03"),
 "C13": ("model_checking", "deviation-bounded stateless depth-first exploration with stop()/shutdown()/commit() injectable at every state",
         "46 configurations (group/no group, auto-commit by count/time/off, sync/async processor, scripts stop / stop+restart / shutdown / commit+shutdown / shutdown+stop / shutdown+restart / stop from inside the processor); the application call may be issued early at every state of runs with <=1 (quick) / <=2 (thorough) faults (commit error codes, fetch error, silent broker, drop). Oracle: nothing of the consumer remains after stop() (no processor call, no request handed to the client or on the wire, no timer), the start Deferred fires once with the last processed offset unless an unrecoverable error occurred, shutdown waits/commits/fires once and never hangs, a restarted consumer delivers from its new position.",
         "SimCluster; small scope; bounds in the evidence notes", "5/C13"),
 "C19": ("model_checking", "explicit-state breadth-first search over the real Producer+KafkaClient with an alphabet of sends, cancels, ticks, replies and stop; reference model of the batching rules",
         "BFS (depth 5-6 quick, 7-8 thorough) over every sequence of sends of four sizes, cancels, timer firings, produce replies (ok/error), accepts and stop for 12 threshold configurations (count x bytes x seconds, each possibly disabled, plus unbatched); a reference model recomputed from scratch each step (queue, thresholds, in-flight) decides in which step a dispatch must and may happen, that cancelled-before-dispatch sends never reach the client, and the stop contract.",
         "warmed-up client, 1 broker/partition, <=4 sends and <=2 cancels per history; dispatch observed at the public KafkaClient.send_produce_request / load_metadata_for_topics seam", "5/C19"),
 "C01": ("model_checking", "deviation-bounded stateless depth-first exploration of the real Producer+KafkaClient on a virtual clock, network and Kafka cluster",
         "Every schedule of the real Producer + KafkaClient against a 2-broker simulated cluster within the stated deviation bound (quick: 1 deviation on 96 configurations, 2 on 32 core ones, plus 361 sticky-fault configurations; thorough: 2-3) is executed to quiescence; deviations are broker error codes per request or partition, silent brokers, drops, refused connections, timers overtaking I/O and early application calls (send/cancel/stop). A monitor checks exactly-once firing and that every success is backed by an append the partition leader acknowledged (or bytes written for acks=0).",
         "SimCluster + refkafka stand in for Kafka; small scope (2 brokers, 3 partitions, <=5 sends); bounds recorded in the evidence notes", "5/C01"),
 "C09": ("model_checking", "deviation-bounded stateless depth-first exploration of the real Producer+KafkaClient; oracle on the producer->client call seam and the broker-side journal",
         "Scripts of 3-4 sends over 3 partitions (round-robin and hashed), batched and unbatched, explored under every schedule with <=2 (quick) / <=3 (thorough) deviations and under sticky per-partition error patterns lasting 1, 2, 4 or all attempts; the oracle checks per-partition order in every attempt and in the log, one payload per message per attempt, no overlap of batches, no re-send of an acknowledged payload, geometric retry timers with reset, and the attempt limit.",
         "SimCluster stands in for Kafka; the producer->client interface (KafkaClient.send_produce_request) is observed by wrapping the public method", "5/C09"),
 "C06": ("model_checking", "explicit-state breadth-first search over the real broker-connection objects on a virtual transport, fingerprint-deduplicated, depth-bounded",
         "BFS over the real _KafkaBrokerClient + KafkaProtocol driven by a scripted broker: every enabled event (requests, in-flight id re-use, cancels, frames for any seen/unknown id in any order, an impossible-length frame, whole and partial deliveries at prefix/body/frame boundaries, accept/refuse/drop/close, timers, disconnect, close) at every reachable state to depth 8 (quick) / 9-10 (thorough); a reference model of request instances judges exactly-once completion, own-id correlation by exact frame bytes, legal failure causes and termination on impossible lengths at every state.",
         "small scope (<=3 requests, <=3 frames per connection); virtual transport keeps the ITransport contract; fingerprint = canonical walk of the whole object graph (can only be too fine)", "5/C06"),
 "C10": ("model_checking", "explicit-state breadth-first search over the real broker-connection objects with connection loss in every state, fingerprint-deduplicated, depth-bounded",
         "Same engine as C06 with the alphabet centred on loss: drop enabled in every state, repeated refusals, backoff timers (retryPolicy(k)=0.5k makes the failure count observable), cancels, no-reply requests, close at every state; depth 9-10 (quick) / 11-13 (thorough). The oracle compares, per connection, the frames the broker received with the reference model's pending list (issue order, once each), checks reconnect/idle rules, backoff instants, and the close contract.",
         "small scope (<=3 requests, <=2 frames per connection); virtual endpoint/transport contracts", "5/C10"),
 "C18": ("exploration", "bounded-exhaustive key enumeration against Kafka's murmur2 on the JVM; exhaustive enumeration of round-robin selection histories (fresh and in-place updated lists); the real Producer on clusters listing partitions in any order",
         "pure_murmur2 and HashedPartitioner.partition are compared with Kafka's Utils.murmur2 executed on the installed JVM for every key of length 0..8 (quick) / 0..9 (thorough) over a 6-byte alphabet covering every length mod 4 and bytes >= 0x80, plus long and text keys; the round-robin partitioner is driven through every sequence of partition() calls (depth 8/10/12) over four partition lists with every randint answer and checked for window fairness and restart after a list change.",
         "Java ground truth is a transcription of Utils.murmur2 validated on the JVM against Kafka's published vectors; key space and history depth bounded", "5/C18"),
 "C05": ("exploration", "bounded-exhaustive enumeration of well-formed responses and message sets from an independent encoder, decoded by afkak and compared field by field",
         "Every response layout afkak decodes (14 layouts + 2 embedded blobs) is generated by refkafka from the product of small value domains (all error codes, boundary ints, null/empty strings, 0..2 topics/partitions/members) and every message-set shape (both magics, gzip/snappy wrappers with relative and absolute inner offsets, gaps, nesting depth 2) and decoded by the real decoders; equality of all fields, offsets and timestamps is required, plus afkak encode->decode identity.",
         "refkafka is the independent encoder; snappy is a conformant shim", "5/C05"),
 "C04": ("exploration", "bounded-exhaustive enumeration of request shapes through afkak's encoders, strictly parsed by an independent grammar implementation, plus deviation-bounded depth-first exploration of producer, consumer and group member with every request on the wire parsed strictly",
         "All 13 request encoders and the 2 embedded blobs are driven with the product of boundary values per field width, string/bytes classes (null, empty, non-ASCII, long), payload orders and codecs; the bytes must parse under refkafka's strict parser (whole frame consumed, CRCs, magic per version, codec attributes) to exactly the supplied values. Version negotiation is explored on the real Producer/Consumer+KafkaClient against 12 advertised version tables and two kinds of legacy broker with requests issued before/during/after discovery (deviation-bounded DFS).",
         "refkafka's strict parser is the grammar (DESIGN.md Appendix A)", "5/C04"),
 "C12": ("fault_enumeration", "exhaustive enumeration of bit flips, bursts, truncations and hostile field overwrites (single and count+back-jump pairs) on a reference-encoded corpus, plus bit errors injected in flight into the real consumer's fetch answers",
         "Every single-bit flip and every burst (all interior patterns up to 8/10 bits, three patterns up to 16/32 bits) of every message of a 20-set corpus must raise ChecksumError without yielding the altered message; every truncation point must yield exactly the complete prefix or ConsumerFetchSizeTooSmall; every decoder is fed every truncation and every 1/2/4-byte hostile overwrite of a valid response under a deterministic linear cost budget, and all short strings over a hostile alphabet.",
         "CRC-32 theory is not assumed: every case is executed; compression bombs excluded; cost measured by traced line events and tracemalloc", "5/C12"),
 "C15": ("exploration", "bounded-exhaustive enumeration of inputs through the real leader path against a reference codec, plus deviation-bounded depth-first exploration of the real ConsumerGroup as leader over several generations while topics change",
         "Every member set (<=3 quick / <=4 thorough ids, every order), every subscription map and every partition map from a small menu is pushed through the real decode_join_group_response -> generate_assignments -> encode_sync_group_request -> decode_assignment path; the oracle checks exactly-once ownership, subscriber-only, balance, order independence and per-member decode. Exhaustive within the stated scope; input enumeration is the right level because the property quantifies over inputs only.",
         "small-scope hypothesis; refkafka (independent table-driven codec) builds and parses the frames", "5/C15"),
}
NOT_YET = "check not built yet in this revision (build in progress; see DESIGN.md section 5)"

def main():
    checks = []
    for pid in ALL:
        if pid not in CHECKS:
            continue
        cat, tech, text, note, ref = CHECKS[pid]
        checks.append({
            "property_id": pid,
            "quick_cmd": "bin/check %s --tier quick" % pid,
            "thorough_cmd": "bin/check %s --tier thorough" % pid,
            "evidence_file": "evidence/%s.json" % pid,
            "replay_cmd_template": "bin/check %s --replay {path}" % pid,
            "engine": "afkak-mc",
            "level_claimed": {"category": cat, "text": text, "design_ref": "DESIGN.md section " + ref},
            "level_note": note,
            "technique": tech,
        })
    m = {
        "version": 1,
        "setup_cmd": "bin/setup",
        "hooks": {
            "guard": "AFKAK_VERIF",
            "enable": "no source hooks exist: harness processes monkey-patch module attributes (afkak.client.random, afkak.kafkacodec.time, afkak.partitioner.randint, and gzip.time for the header timestamp) and import afkak from /repo's working tree; AFKAK_VERIF=1 is exported for uniformity only",
            "baseline_off_cmd": "cd /repo && /venv/bin/python -m pytest -q -p no:cacheprovider --timeout=900",
            "source_commits": [],
            "add_only": True,
        },
        "engines": [{
            "name": "afkak-mc",
            "path": "mc/",
            "serves_properties": sorted(CHECKS),
            "kind_free_text": "purpose-built explicit-state explorer for Twisted code: deviation-bounded stateless DFS and fingerprinted BFS over the real afkak objects on a virtual clock/network/Kafka cluster, plus bounded-exhaustive input enumeration against an independent reference codec",
        }],
        "checks": checks,
        "not_applicable": [{"property_id": p, "reason": NOT_YET} for p in ALL if p not in CHECKS],
        "notes": "All checks run the real afkak code from /repo's working tree (AFKAK_SRC overrides). See DESIGN.md.",
    }
    with open(os.path.join(ROOT, "MANIFEST.json"), "w") as f:
        json.dump(m, f, indent=1)
    print("MANIFEST.json: %d checks, %d not_applicable" % (len(checks), len(m["not_applicable"])))

if __name__ == "__main__":
    main()
