"""C11 -- every broker request is bounded by the client timeout.

Deviation-bounded stateless DFS over a warmed-up KafkaClient: 1-3 concurrent
calls sharing one or two connections; each broker answer may be prompt, late
(the timer overtakes it) or never come; connections may never establish.
"""
import itertools

from checks import _dfs

PROPERTY = "C11"
SPEC = "harness.client:ApiWorld"
replay = _dfs.replay

CLUSTER = {"brokers": [1, 2], "topics": {"t": {"0": 1, "1": 2}, "u": {"0": 1}}, "coordinator": 2}
MENU = {"silent": True, "hang": True, "timer_early": True, "reorder": True, "reply_while_closing": True}

MIXES = [
    [["produce", [["t", 0, ["a"]]], {"foe": False}]],
    [["produce", [["t", 0, ["a"]], ["t", 1, ["b"]]], {"foe": False}], ["fetch", [["u", 0, 0, 100]]]],
    [["fetch", [["t", 0, 0, 100]]], ["offsets", [["u", 0, -1]]], ["offset_commit", [["t", 1, 3]]]],
    [["join", "g"], ["heartbeat", "g"], ["fetch", [["t", 1, 0, 100]]]],
    [["metadata", ["t"]], ["coordinator", "g2"]],
    [["produce", [["u", 0, ["x"]]], {"acks": 0}], ["offsets", [["t", 0, -1]]]],
]


def configs(tier):
    out = []
    for timeout, dot, connect, mix in itertools.product([1000, 10000], [False, True], [True, False], MIXES):
        cfg = {"cluster": CLUSTER, "discovery": False, "timeout_ms": timeout, "disconnect_on_timeout": dot,
               "warm": [["t", "u"], ["g"]], "warm_connect": connect, "script": [["calls", mix]], "menu": MENU,
               "horizon_s": 200}
        out.append(cfg)
    # the connection was lost while idle (e.g. dropped by an earlier disconnect-on-timeout): a prompt broker must
    # still be reached by the next request within the bound
    for timeout, dot, mix in itertools.product([1000], [False, True], MIXES[:3]):
        out.append({"cluster": CLUSTER, "discovery": False, "timeout_ms": timeout, "disconnect_on_timeout": dot,
                    "warm": [["t", "u"], ["g"]], "warm_connect": True,
                    "script": [["cluster", "drop_conns", 1], ["cluster", "drop_conns", 2], ["calls", mix]],
                    "menu": MENU, "horizon_s": 200})
    return out


RULE = ("warmed-up KafkaClient (metadata, coordinator cached; broker connections open or not yet made), timeout {1 s, "
        "10 s} x disconnect_on_timeout {off,on}; 1-3 concurrent calls (produce over two brokers, fetch, list-offsets, "
        "offset-commit, JoinGroup with its 35 s minimum, heartbeat, metadata, coordinator lookup, acks=0 produce) on "
        "one or two connections; per request the broker is prompt, late (the timeout timer fires first, the reply is "
        "delivered afterwards) or silent; a connection attempt may never complete; replies in any order.  Oracle: every call resolves within its bound of "
        "virtual time; a timeout is reported only at the bound, and only if the reply had not arrived; without faults "
        "other than delay no call fails for another reason; once all calls completed no request timer is armed; a "
        "late reply never changes a completed call; no exception escapes into the reactor.  group-join-in-situ: the "
        "real ConsumerGroup with session timeout {6, 30, 60 s} x client timeout {5, 40 s}: every request timer armed "
        "is the client timeout or, for a JoinGroup, max(timeout, 35 s), whatever the session timeout.")
ASSUME = ["virtual time advances only through timer events, so 'late by any amount' is 'the timer fires first'"]


def group_configs(tier):
    """The group member's own requests (JoinGroup with the stated 35 s minimum) for several session timeouts."""
    out = []
    cl = {"brokers": [1, 2], "topics": {"t": {"0": 1, "1": 2}}, "coordinator": 2}
    for session, timeout in itertools.product([6000, 30000, 60000], [5000, 40000]):
        out.append({"cluster": cl, "discovery": False, "timeout_ms": timeout, "topics": ["t"],
                    "session_timeout_ms": session, "logs": {"t/0": 1, "t/1": 1}, "group": {"leader": "real"},
                    "processor": "sync", "commit_every_n": 1, "script": [["start"], ["stop", {"consumed": True}]],
                    "menu": {"silent": True, "timer_early": True, "err": {"12": [27]}}, "horizon_s": 400})
    return out


def run(tier, seed, only=None):
    if tier == "quick":
        plans = [("mixes-4dev", configs(tier), (2, 3, 4))]
    else:
        plans = [("mixes-5dev", configs(tier), (3, 4, 5))]
    rep = _dfs.run_plans(PROPERTY, SPEC, plans, seed, RULE, ASSUME, max_steps=300)
    _dfs.run_plans(PROPERTY, "harness.group:GroupWorld",
                   [("group-join-in-situ", group_configs(tier), (1, 1, 2) if tier == "quick" else (2, 1, 3))],
                   seed, RULE, ASSUME, rep=rep, max_steps=500)
    return rep
