"""C10 -- after a connection drop, unanswered requests are re-sent once, in order.

Same harness and algorithm as C06 (explicit-state BFS over the real broker
client), with the alphabet centred on connection loss at every point, connect
failures, backoff timers, cancellation and close.
"""
from checks import _bc

PROPERTY = "C10"
replay = _bc.replay

RULE = ("alphabet: makeRequest (reply / no-reply), cancel, broker frames, whole-buffer delivery, accept / refuse of "
        "every connection attempt (refusals repeat), drop in every state (before, between and after frames, while "
        "requests are queued), clean close after disconnect(), backoff timers, close(), connect() failing "
        "synchronously.  retryPolicy(k)=0.5k (9k in the plan with synchronous failures) so delays identify the "
        "failure count.  Oracle: per connection the broker receives exactly the unanswered, "
        "uncancelled requests in issue order, each once, then later requests in issue order; answered, cancelled and "
        "no-reply requests never reappear; a drop with pending requests starts an attempt at once, an idle drop none; "
        "attempt after k consecutive refusals happens exactly 0.5k later and k resets after a success; close() fails "
        "everything pending, cancels the attempt, makes no further attempt and its Deferred fires once, only when "
        "the connection is gone; pending requests are always justified by a live connection, an attempt or a timer.")
ASSUME = _bc_assume = ["<= 3 requests, <= 2 broker frames per connection, depth-bounded histories",
                       "VTransport/VNet implement the endpoint and transport contracts afkak relies on"]


def run(tier, seed, only=None):
    base = {"chunks": False, "big": False, "max_frames": 2}
    if tier == "quick":
        plans = [("drops-3req", dict(base, max_reqs=3), 9),
                 ("drops-2req-deep", dict(base, max_reqs=2, noreply=False), 10)]
    else:
        plans = [("drops-3req", dict(base, max_reqs=3), 11),
                 ("drops-2req-deep", dict(base, max_reqs=2, noreply=False), 13)]
    # connect() failing synchronously (the endpoint returns an already failed Deferred), and a retry policy whose
    # delays exceed any built-in constant (9 s per failure)
    plans.append(("sync-connect-failure", dict(base, max_reqs=2, noreply=False, sync_refuse=2, retry_base=9.0,
                                               ops=["req", "cancel", "conn", "drop", "timer", "close"]),
                  9 if tier == "quick" else 12))
    return _bc.run_bfs(PROPERTY, plans, seed, RULE, ASSUME)
