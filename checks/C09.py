"""C09 -- per-partition send order is preserved and retries are disciplined.

Deviation-bounded stateless DFS over the real Producer + KafkaClient on the
virtual cluster (harness/producer.py, oracle selected by prop=C09).
"""
import itertools

from checks import _dfs

PROPERTY = "C09"
SPEC = "harness.producer:ProducerWorld"
replay = _dfs.replay

CLUSTER = {"brokers": [1, 2], "topics": {"t": {"0": 1, "1": 2}, "u": {"0": 1}}}
CLUSTER_SAME = {"brokers": [1, 2], "topics": {"t": {"0": 1, "1": 1}, "u": {"0": 2}}}
ERRS = [6, 7]
MENU = {"err": {"0": ERRS}, "silent": True, "drop": True, "timer_early": True, "app_early": True,
        "err_per_partition": True}

S_RR4 = [["send", "t", None, ["a0"]], ["send", "t", None, ["b0"]], ["send", "t", None, ["c0", "c1"]],
         ["send", "t", None, ["d0"]]]
S_MIX = [["send", "t", "k", ["a0"]], ["send", "u", None, ["b0"]], ["send", "t", "k", ["c0"]],
         ["send", "t", None, ["d0"]]]
S_TWO = [["send", "t", None, ["a0"]], ["send", "t", None, ["b0", "b1"]], ["send", "u", None, ["c0"]]]


def configs(tier):
    out = []
    for cl, batched, attempts, (script, part) in itertools.product(
            [CLUSTER, CLUSTER_SAME], [False, True], [2, 3], [(S_RR4, "rr"), (S_MIX, "hashed"), (S_TWO, "rr")]):
        # (0.25 s is the library's default interval: the other value tells "configured" from "default")
        prod = {"acks": 1, "max_req_attempts": attempts, "partitioner": part,
                "retry_interval": 0.25 if attempts == 2 else 0.4}
        if batched:
            prod.update(batch_send=True, batch_every_n=2, batch_every_b=0, batch_every_t=0)
        out.append({"cluster": cl, "discovery": False, "producer": prod, "script": script, "menu": MENU,
                    "timeout_ms": 2000})
    return out


def pattern_configs(tier):
    """Per-partition outcome pattern per attempt via sticky faults: error on one partition for k attempts."""
    out = []
    modes = []
    for e in (6, 7, 5):
        for only in (["t", 0], ["t", 1], None):
            for budget in (1, 2, -1):
                m = {"api": 0, "err": e, "budget": budget}
                if only:
                    m["only"] = only
                modes.append(m)
    modes.append({"api": 0, "silent": True, "budget": 1})
    modes.append({"api": 0, "silent": True, "budget": -1})
    for mode, cl, batched, attempts in itertools.product(modes, [CLUSTER, CLUSTER_SAME], [False, True], [2, 3]):
        prod = {"acks": 1, "max_req_attempts": attempts, "retry_interval": 0.25}
        if batched:
            prod.update(batch_send=True, batch_every_n=2, batch_every_b=0, batch_every_t=0)
        out.append({"cluster": dict(cl, modes=[mode]), "discovery": False, "producer": prod, "script": S_RR4,
                    "menu": {"timer_early": True, "app_early": True}, "timeout_ms": 2000})
    # a partition without a leader: the client refuses the whole request before any I/O, attempt after attempt
    for batched, attempts in itertools.product([False, True], [2, 3]):
        prod = {"acks": 1, "max_req_attempts": attempts, "retry_interval": 0.25}
        if batched:
            prod.update(batch_send=True, batch_every_n=2, batch_every_b=0, batch_every_t=0)
        cl = {"brokers": [1, 2], "topics": {"t": {"0": 1, "1": -1}, "u": {"0": 1}}}
        out.append({"cluster": cl, "discovery": False, "producer": prod, "script": S_RR4,
                    "menu": {"timer_early": True, "app_early": True}, "timeout_ms": 2000})
    # the application closes the client while a retry is pending: the remaining attempts are refused synchronously
    for batched, attempts, mode in itertools.product([False, True], [2, 3, 4], [
            {"api": 0, "err": 6, "budget": -1}, {"api": 0, "silent": True, "budget": -1}]):
        prod = {"acks": 1, "max_req_attempts": attempts, "retry_interval": 0.25}
        if batched:
            prod.update(batch_send=True, batch_every_n=2, batch_every_b=0, batch_every_t=0)
        out.append({"cluster": dict(CLUSTER, modes=[mode]), "discovery": False, "producer": prod,
                    "script": S_TWO[:2] + [["close_client"]], "menu": {"timer_early": True, "app_early": True},
                    "timeout_ms": 2000})
    # long failure runs: the geometric sequence needs >= 3 retry timers to be distinguishable
    for mode in ({"api": 0, "err": 7, "budget": -1}, {"api": 0, "err": 6, "budget": 4, "only": ["t", 1]},
                 {"api": 0, "silent": True, "budget": 3}):
        for batched in (False, True):
            prod = {"acks": 1, "max_req_attempts": 5, "retry_interval": 0.25}
            if batched:
                prod.update(batch_send=True, batch_every_n=2, batch_every_b=0, batch_every_t=0)
            out.append({"cluster": dict(CLUSTER, modes=[mode]), "discovery": False, "producer": prod,
                        "script": S_TWO[:2], "menu": {"timer_early": True, "app_early": True}, "timeout_ms": 2000})
    return out


def election_configs(tier):
    """A partition loses its leader between attempts and gets one back later (leader election)."""
    out = []
    evs = [["move", "t", 1, -1], ["move", "t", 1, 2], ["move", "t", 1, 1]]
    for cl, batched, attempts in itertools.product([CLUSTER, CLUSTER_SAME], [False, True], [3, 4]):
        prod = {"acks": 1, "max_req_attempts": attempts, "retry_interval": 0.25}
        if batched:
            prod.update(batch_send=True, batch_every_n=2, batch_every_b=0, batch_every_t=0)
        out.append({"cluster": cl, "discovery": False, "producer": prod, "script": S_RR4,
                    "menu": {"cluster_events": evs, "timer_early": True}, "timeout_ms": 2000})
    return out


RULE = ("real Producer+KafkaClient, 2 brokers, topic t with 2 partitions (on different leaders and on the same leader) "
        "and topic u; scripts of 3-4 sends (round-robin and keyed/hashed streams), batched (n=2) and unbatched, "
        "attempt limit {2,3}.  Alphabet: correct reply, error {6,7} for the whole request or one partition, silent "
        "broker, drop, timer before pending I/O, next send before quiescence (i.e. while replies or a retry timer are "
        "pending); sticky per-partition error patterns lasting 1, 2 or all attempts; a leaderless partition; the "
        "application closing the client while a retry is pending (later attempts are refused synchronously).  Oracle over the broker-side "
        "request journal: per partition messages follow send order in every request and in the log; a message is in "
        "one payload per request; no new batch reaches the wire while a send of an earlier batch is unresolved; a "
        "payload acknowledged with error 0 is reported at once and never transmitted again; retry timers are "
        "interval x 1.20205^k and reset when the batch resolves; transmissions per send <= max_req_attempts.")
ASSUME = ["SimCluster is Kafka (no replication)", "small scope: 2 brokers, 3 partitions, <= 4 sends"]


def run(tier, seed, only=None):
    if tier == "quick":
        plans = [("sends-2dev", configs(tier), (1, 1, 2)),
                 ("patterns-1dev", pattern_configs(tier), (0, 1, 1)),
                 ("leader-election", election_configs(tier), (2, 1, 3))]
    else:
        plans = [("sends-3dev", configs(tier), (2, 2, 3)),
                 ("patterns-2dev", pattern_configs(tier), (1, 1, 2)),
                 ("leader-election", election_configs(tier), (3, 1, 4))]
    if only:
        plans = [p for p in plans if p[0] in only]
    return _dfs.run_plans(PROPERTY, SPEC, plans, seed, RULE, ASSUME)
