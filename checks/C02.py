"""C02 -- consumer delivers every message once, in offset order, never concurrently.

Deviation-bounded stateless DFS over the real Consumer + KafkaClient on the
virtual cluster (harness/consumer.py).
"""
import itertools

from checks import _dfs

PROPERTY = "C02"
SPEC = "harness.consumer:ConsumerWorld"
replay = _dfs.replay

CLUSTER = {"brokers": [1, 2], "topics": {"t": {"0": 1}}}
FETCH_ERRS = [3, 5, 6, 7]
MENU = {"err": {"1": FETCH_ERRS, "2": [6, 7], "9": [14, 16], "3": [5]}, "silent": True, "drop": True, "refuse": True,
        "timer_early": True, "proc_early": True, "app_early": True, "corrupt": [0, 1, 2]}
MENU_LIGHT = {"err": {"1": [6, 7], "2": [6]}, "silent": True, "drop": True, "timer_early": True, "proc_early": True}

LOGS = {
    "plain6": [["p", "k0", "v0"], ["p", None, "v1"], ["p", "k2", None], ["p", "", ""], ["p", "k4", "v4"],
               ["p", "k5", "v5"]],
    "gaps": [["p", "k0", "v0"], ["gap", 3], ["p", "k4", "v4"], ["p", "k5", "v5"], ["gap", 1], ["p", "k7", "v7"]],
    "base1000": [["base", 1000], ["p", "k0", "v0"], ["p", "k1", "v1"], ["p", "k2", "v2"], ["p", "k3", "v3"]],
    "wrapper": [["p", "k0", "v0"], ["p", "k1", "v1"], ["w", 1, [["a", "w2"], ["b", "w3"], ["c", "w4"]]],
                ["p", "k5", "v5"]],
    "wrapper-base": [["base", 1000], ["p", "k0", "v0"], ["w", 1, [["a", "w1"], ["b", "w2"], ["c", "w3"]]],
                     ["w", 2, [["d", "w4"], ["e", "w5"]]], ["p", "k6", "v6"]],
    "wrapper-gap": [["base", 50], ["wgap", 1, [["a", "w0"], ["b", "w3"], ["c", "w4"]], [0, 3, 4]], ["p", "k5", "v5"]],
    "big": [["p", "k0", "v0"], ["big", 700], ["p", "k2", "v2"]],
}


def configs(tier, menu):
    out = []
    for (lname, log), magic, proc in itertools.product(sorted(LOGS.items()), [0, 1], ["sync", "async"]):
        if lname == "base1000":
            starts = ["earliest", 1002, "latest"]
        elif lname == "wrapper":
            starts = ["earliest", 3]  # 3 = middle of the wrapper
        elif lname == "wrapper-base":
            starts = [1002, "committed"]
        elif lname == "wrapper-gap":
            starts = ["earliest", 52]
        else:
            starts = ["earliest"]
        for start in starts:
            cfg = {"cluster": CLUSTER, "discovery": magic == 1, "log": log, "magic": magic, "start": start,
                   "consumer": {"buffer_size": 130}, "processor": proc, "script": [["start"]], "menu": menu,
                   "timeout_ms": 2000}
            if start == "committed":
                cfg["group"] = True
                cfg["stored"] = 1001
                cfg["consumer"] = {"buffer_size": 130, "auto_commit_every_n": 0, "auto_commit_every_ms": 0}
            if start == "latest":
                cfg["script"] = [["start"], ["append", "n0", "late0", {"time": 0.05}], ["append", "n1", "late1"]]
            out.append(cfg)
    return out


def extra_configs(tier):
    """Committed start without a stored offset (both policies), leader move mid-stream, restart by the application."""
    out = []
    for policy in (None, "earliest", "latest"):
        cfg = {"cluster": CLUSTER, "discovery": False, "log": LOGS["base1000"], "magic": 0, "start": "committed",
               "group": True, "consumer": {"buffer_size": 130, "auto_commit_every_n": 0, "auto_commit_every_ms": 0},
               "processor": "sync", "script": [["start"]], "menu": MENU_LIGHT, "timeout_ms": 2000}
        if policy:
            cfg["consumer"]["auto_offset_reset"] = policy
        if policy == "latest":
            cfg["script"] = [["start"], ["append", "n0", "late0", {"time": 0.05}]]
        out.append(cfg)
    out.append({"cluster": CLUSTER, "discovery": False, "log": LOGS["plain6"], "magic": 0, "start": "earliest",
                "consumer": {"buffer_size": 130}, "processor": "async",
                "script": [["start"], ["stop", {"delivered": 3}], ["restart", 3]], "menu": MENU_LIGHT,
                "timeout_ms": 2000})
    # graceful shutdown whose final commit is rejected, then the application starts the consumer again
    out.append({"cluster": dict(CLUSTER, coordinator=2), "discovery": False, "log": LOGS["base1000"], "magic": 0,
                "start": "earliest", "group": True,
                "consumer": {"buffer_size": 75, "auto_commit_every_n": 0, "auto_commit_every_ms": 0},
                "processor": "sync",
                "script": [["start"], ["shutdown", {"delivered": 2}], ["restart", 1002, {"stopped": True}]],
                "menu": dict(MENU_LIGHT, err={"8": [22, 25], "1": [6]}), "timeout_ms": 2000})
    return out


def stop_configs(tier):
    """The application stops the consumer at any moment (processor busy, a reply parked behind it, fetch in flight)."""
    out = []
    for d, buf in ((1, 75), (2, 130)):
        out.append({"cluster": CLUSTER, "discovery": False, "log": LOGS["plain6"], "magic": 0, "start": "earliest",
                    "consumer": {"buffer_size": buf}, "processor": "async",
                    "script": [["start"], ["stop", {"delivered": d}]],
                    "menu": {"timer_early": True, "proc_early": True, "app_early": True, "err": {"1": [6]}},
                    "timeout_ms": 2000})
    return out


RULE = ("real Consumer+KafkaClient, 2 brokers, one partition whose log is one of: 6 plain messages (null/empty keys "
        "and values), compaction gaps, base offset 1000, a gzip wrapper in the middle (fetched from its middle), "
        "gzip+snappy wrappers at base 1000, a compacted wrapper with inner gaps, a message larger than the fetch "
        "buffer; each in message format 0 (discovery off) and 1 (discovery on); start in {earliest, numeric (also "
        "mid-wrapper), latest + later appends, committed with/without a stored offset}; processor sync or async "
        "(completed by an explicit event, so replies can arrive while processing); fetch buffer 130 bytes so a log "
        "needs several fetches and ends in partial messages.  Alphabet: correct reply, fetch/offset error codes "
        "{3,5,6,7,14,16}, a bit error in flight in the 1st/2nd/3rd message of a fetch answer, silent broker, drop, "
        "refused connection, timer before pending I/O, processor completion "
        "before pending I/O, early application call.  Oracle: incremental monitor over the ground-truth log: every "
        "invocation carries exactly the next log entries (offset, key, value), never while the previous result is "
        "pending, at most one fetch outstanding, first fetch at the resolved start position, and at quiescence "
        "(faults ceased) the whole log has been delivered.")
ASSUME = ["SimCluster is Kafka: fetch answers are cut at max_bytes mid-message like a 0.x broker; wrappers are "
          "returned whole from the entry containing the offset", "small scope, deviation bounds in the notes"]


def run(tier, seed, only=None):
    if tier == "quick":
        plans = [("logs-starts-2dev", configs(tier, MENU), (1, 1, 2)),
                 ("logs-starts-3dev-light", configs(tier, MENU_LIGHT)[::3], (2, 1, 3)),
                 ("policies-restart", extra_configs(tier), (1, 1, 2)),
                 ("stop-at-any-moment", stop_configs(tier), (1, 3, 3))]
    else:
        plans = [("logs-starts-3dev", configs(tier, MENU), (2, 1, 3)),
                 ("logs-starts-4dev-light", configs(tier, MENU_LIGHT)[::3], (2, 2, 4)),
                 ("policies-restart", extra_configs(tier), (2, 2, 3)),
                 ("stop-at-any-moment", stop_configs(tier), (2, 4, 5))]
    if only:
        plans = [p for p in plans if p[0] in only]
    return _dfs.run_plans(PROPERTY, SPEC, plans, seed, RULE, ASSUME, max_steps=400)
