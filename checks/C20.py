"""C20 -- closing the client fails everything pending and releases every connection.

Deviation-bounded stateless DFS over the real KafkaClient: close() is a script
operation the explorer may issue early at every state (bootstrapping, broker
clients connecting / backing off, requests in flight on 1-3 brokers, a full
metadata refresh closing a removed broker's connection, timers armed), after at
most one (quick) / two (thorough) faults, followed by every order of the
connection-closed notifications and late replies.
"""
import itertools

from checks import _dfs

PROPERTY = "C20"
SPEC = "harness.client:ApiWorld"
replay = _dfs.replay

CLUSTER3 = {"brokers": [1, 2, 3], "topics": {"t": {"0": 1, "1": 2}, "u": {"0": 3}}, "coordinator": 2}
CLUSTER1 = {"brokers": [1], "topics": {"t": {"0": 1}}}
MENU = {"refuse": True, "drop": True, "silent": True, "err": {"0": [6]}, "reorder": True, "timer_early": True,
        "app_early": True, "reply_while_closing": True}
PRODUCE3 = ["call", "produce", [["t", 0, ["a"]], ["t", 1, ["b"]], ["u", 0, ["c"]]], {"foe": False}]
FETCH2 = ["call", "fetch", [["t", 0, 0, 100], ["t", 1, 0, 100]]]


def configs(tier):
    out = []
    scripts = [
        [PRODUCE3, ["close"], FETCH2],
        [["call", "metadata", ["t"]], PRODUCE3, ["close"], ["call", "metadata", []]],
        [["call", "offset_commit", [["t", 0, 5]]], ["call", "metadata", []], ["close"], PRODUCE3],
        [["call", "coordinator", "g"], FETCH2, ["close"], ["call", "coordinator", "g"]],
    ]
    for cluster, script, warm in itertools.product([CLUSTER3, CLUSTER1], scripts, [False, True]):
        if cluster is CLUSTER1:
            script = [[op[0], op[1], [p for p in op[2] if p[0] == "t" and p[1] == 0], op[3]] if op[0] == "call" and
                      op[1] in ("produce",) else ([op[0], op[1], [p for p in op[2] if p[1] == 0]] if op[0] == "call"
                                                  and op[1] == "fetch" else op) for op in script]
        cfg = {"cluster": cluster, "discovery": False, "timeout_ms": 2000, "script": script, "menu": MENU}
        if warm:
            cfg["warm"] = [["t", "u"] if cluster is CLUSTER3 else ["t"], ["g"]]
            cfg["warm_connect"] = True
        out.append(cfg)
    # a full refresh that closes a removed broker's client, then close(): nested close_dlist
    for gone in (3, 1):
        out.append({"cluster": CLUSTER3, "discovery": False, "timeout_ms": 2000, "warm": [["t", "u"], []],
                    "warm_connect": True,
                    "script": [["cluster", "remove_broker", gone], ["call", "metadata", []], ["close"],
                               ["call", "metadata", ["t"]]], "menu": MENU})
    # two successive full refreshes each dropping a broker whose disconnect is still pending, then close()
    cluster4 = {"brokers": [1, 2, 3, 4], "topics": {"t": {"0": 1, "1": 2}, "u": {"0": 3, "1": 4}}}
    out.append({"cluster": cluster4, "discovery": False, "timeout_ms": 2000, "warm": [["t", "u"], []],
                "warm_connect": True,
                "script": [["cluster", "remove_broker", 4], ["call", "metadata", []], ["cluster", "remove_broker", 3],
                           ["call", "metadata", []], ["close"]],
                "menu": dict(MENU, lazy_close=True)})
    # discovery on: ApiVersions exchange in progress when close() arrives
    out.append({"cluster": CLUSTER1, "discovery": True, "timeout_ms": 2000,
                "script": [["call", "produce", [["t", 0, ["a"]]], {"foe": False}], ["close"]], "menu": MENU})
    return out


RULE = ("real KafkaClient on 1- and 3-broker clusters, cold and warmed-up; scripts mixing produce over three brokers, "
        "fetch, offset-commit (coordinator lookup), topic and full metadata loads, a full refresh that drops a broker, "
        "version discovery; close() may be issued early at every state; deviations: refuse, drop, silent, error, "
        "timers overtaking I/O, any order of accept / closed / reply events after close() (late replies are delivered "
        "to closing connections).  Oracle: when close() returns every call in progress has failed; a call issued "
        "afterwards fails in the same step; after close() no connection attempt is made and no request byte is "
        "written; no call succeeds after close(); every connection ends closed; the close Deferred fires exactly once, "
        "in the step the last connection goes and not before; the public metadata view is empty.")
ASSUME = ["SimCluster is Kafka", "small scope; bounds in the notes"]


def run(tier, seed, only=None):
    if tier == "quick":
        plans = [("close-everywhere-3dev", configs(tier), (1, 2, 3)), ("close-2faults", configs(tier), (2, 1, 3))]
    else:
        plans = [("close-everywhere-4dev", configs(tier), (2, 2, 4))]
    return _dfs.run_plans(PROPERTY, SPEC, plans, seed, RULE, ASSUME, max_steps=300)
