"""C01 -- producer acknowledgements are truthful and fire exactly once.

Deviation-bounded stateless DFS over the real Producer + KafkaClient on the
virtual cluster (harness/producer.py).
"""
import itertools

from checks import _dfs

PROPERTY = "C01"
SPEC = "harness.producer:ProducerWorld"
replay = _dfs.replay

CLUSTER = {"brokers": [1, 2], "topics": {"t": {"0": 1, "1": 2}, "u": {"0": 1}}}
PRODUCE_ERRS = [3, 5, 6, 7, 10, 19]
MENU = {"err": {"0": PRODUCE_ERRS, "3": [5]}, "silent": True, "drop": True, "refuse": True, "timer_early": True,
        "app_early": True, "err_per_partition": True}
MENU_LIGHT = {"err": {"0": [6, 7]}, "silent": True, "drop": True, "timer_early": True, "app_early": True}

S_TWO = [["send", "t", None, ["a0"]], ["send", "t", None, ["b0", "b1"]]]
S_KEYED = [["send", "t", "k", ["a0"]], ["send", "u", None, [None]], ["send", "t", "k", ["", "c1"]]]
S_CANCEL = [["send", "t", None, ["a0"]], ["send", "t", None, ["b0"]], ["cancel", 0]]
S_STOP = [["send", "t", None, ["a0"]], ["send", "u", None, ["b0"]], ["stop"]]
S_BIG = [["send", "u", None, ["x" * 70000]]]
S_TOMB = [["send", "t", None, ["a0"]], ["send", "u", None, [None]], ["send", "t", "k", [None, None]]]
S_UNROUTABLE = [["send", "nosuchtopic", None, ["a0"]], ["send", "t", None, ["b0"]]]


def cluster_for(discovery):
    c = dict(CLUSTER)
    if discovery == "legacy":
        c = dict(c, brokers={"1": "legacy-close", "2": "legacy-close"})
    return c


def configs(tier):
    out = []
    accs = [1, 0, -1]
    for acks, batched, codec, attempts, disc in itertools.product(
            accs, [False, True], [None, 1, 2], [1, 2, 3], ["off", "modern", "legacy"]):
        if codec == 2 and (attempts != 2 or disc != "modern"):
            continue  # snappy-shim: one slice only
        if tier == "quick" and codec == 1 and attempts == 3:
            continue
        prod = {"acks": acks, "max_req_attempts": attempts, "codec": codec}
        if batched:
            prod.update(batch_send=True, batch_every_n=2, batch_every_b=0, batch_every_t=0)
        for script in (S_TWO,):
            out.append({"cluster": cluster_for(disc), "discovery": disc != "off", "producer": prod,
                        "script": script, "menu": MENU, "timeout_ms": 2000})
    # one produce request carrying several partitions (and two topics) to one broker, in both negotiated layouts
    same = {"topics": {"t": {"0": 1, "1": 1}, "u": {"0": 1}}}
    for acks, disc, codec in itertools.product([1, -1], ["off", "modern", "legacy"], [None, 1]):
        prod = {"acks": acks, "max_req_attempts": 2, "codec": codec, "batch_send": True, "batch_every_n": 3,
                "batch_every_b": 0, "batch_every_t": 0}
        out.append({"cluster": dict(cluster_for(disc), **same), "discovery": disc != "off", "producer": prod,
                    "script": S_TWO + [["send", "u", None, ["c0"]]], "menu": MENU, "timeout_ms": 2000})
    return out


def core_configs(tier):
    out = []
    for acks, batched, attempts, part in itertools.product([1, 0], [False, True], [2, 3], ["rr", "hashed"]):
        prod = {"acks": acks, "max_req_attempts": attempts, "partitioner": part}
        if batched:
            prod.update(batch_send=True, batch_every_n=2, batch_every_b=0, batch_every_t=0)
        scripts = [S_KEYED, S_TOMB] if part == "hashed" else [S_TWO, S_CANCEL, S_STOP]
        for script in scripts:
            out.append({"cluster": CLUSTER, "discovery": False, "producer": prod, "script": script,
                        "menu": MENU_LIGHT, "timeout_ms": 2000})
    return out


S_STOP_QUEUED = [["send", "t", None, ["a0"]], ["send", "u", None, ["b0"]], ["send", "t", None, ["c0", "c1"]],
                 ["send", "t", "k", [None]], ["stop"]]
S_CANCEL_QUEUED = [["send", "t", None, ["a0"]], ["send", "u", None, ["b0"]], ["cancel", 0], ["send", "t", None, ["c0"]],
                   ["stop"]]


def queued_configs(tier):
    """Sends waiting below the batching thresholds when stop()/cancel arrive."""
    out = []
    for acks, t, script in itertools.product([1, 0], [0, 5], [S_STOP_QUEUED, S_CANCEL_QUEUED]):
        prod = {"acks": acks, "max_req_attempts": 2, "batch_send": True, "batch_every_n": 10, "batch_every_b": 0,
                "batch_every_t": t}
        out.append({"cluster": CLUSTER, "discovery": False, "producer": prod, "script": script,
                    "menu": MENU_LIGHT, "timeout_ms": 2000})
    return out


def persistent_configs(tier):
    """The same fault on every attempt until the limit -- what mocks never do."""
    out = []
    modes = [{"api": 0, "err": e, "budget": -1} for e in PRODUCE_ERRS] + \
            [{"api": 0, "silent": True, "budget": -1}] + \
            [{"api": 0, "err": e, "budget": -1, "only": ["t", 1]} for e in (6, 7)] + \
            [{"api": 0, "err": e, "budget": k} for e in (6, 7) for k in (1, 2)] + \
            [{"api": 3, "err": 5, "budget": -1}, {"api": 3, "err": 5, "budget": 2}]
    for mode, acks, batched, attempts in itertools.product(modes, [1, -1], [False, True], [1, 2, 3]):
        prod = {"acks": acks, "max_req_attempts": attempts}
        if batched:
            prod.update(batch_send=True, batch_every_n=2, batch_every_b=0, batch_every_t=0)
        for script in (S_TWO, S_UNROUTABLE):
            cl = dict(CLUSTER, modes=[mode])
            out.append({"cluster": cl, "discovery": False, "producer": prod, "script": script,
                        "menu": {"timer_early": True, "app_early": True}, "timeout_ms": 2000})
    out.append({"cluster": CLUSTER, "discovery": False, "producer": {"acks": 1, "max_req_attempts": 2},
                "script": S_BIG, "menu": MENU_LIGHT, "timeout_ms": 2000})
    # a send is cancelled while the partition lookup of its batch keeps failing
    for mode in ({"api": 3, "err": 5, "budget": -1}, {"api": 3, "err": 3, "budget": 3},
                 {"api": 3, "silent": True, "budget": -1}):
        for attempts, n in itertools.product([2, 3], [2, 3]):
            prod = {"acks": 1, "max_req_attempts": attempts, "batch_send": True, "batch_every_n": n,
                    "batch_every_b": 0, "batch_every_t": 0}
            out.append({"cluster": dict(CLUSTER, modes=[mode]), "discovery": False, "producer": prod,
                        "script": [["send", "t", None, ["a0"]], ["send", "t", None, ["b0"]], ["cancel", 0],
                                   ["send", "u", None, ["c0"]]],
                        "menu": {"timer_early": True, "app_early": True}, "timeout_ms": 2000})
    return out


def dead_leader_configs(tier):
    """A leader dies for good (port closed) at any point; its partitions move to the other broker."""
    out = []
    for acks, batched, attempts in itertools.product([1, 0], [False, True], [1, 3]):
        prod = {"acks": acks, "max_req_attempts": attempts, "retry_interval": 0.25}
        if batched:
            prod.update(batch_send=True, batch_every_n=2, batch_every_b=0, batch_every_t=0)
        out.append({"cluster": CLUSTER, "discovery": False, "producer": prod, "timeout_ms": 2000,
                    "script": S_TWO + [["send", "u", None, ["c0"]], ["send", "t", None, ["d0"]]],
                    "menu": {"cluster_events": [["kill", 1, 2], ["kill", 2, 1]], "timer_early": True,
                             "app_early": True}})
    return out


RULE = ("real Producer+KafkaClient against a 2-broker virtual cluster (topic t: 2 partitions on different leaders, "
        "topic u: 1).  Configurations: acks {1,0,-1} x batched/unbatched x codec {none,gzip,snappy-shim} x attempt "
        "limit {1,2,3} x discovery {off, modern broker, legacy broker}; scripts of 2-3 sends (null/empty/70KB values, "
        "keyed/unkeyed, unroutable topic) with cancel/stop; one request carrying three partitions of two topics to one "
        "broker in both negotiated layouts.  Alphabet: correct reply, reply with produce error "
        "{3,5,6,7,10,19} for all or one partition, metadata error, silent broker, connection drop, refused connection, "
        "timer before pending I/O, application call before quiescence; plus sticky faults (same error / silence on "
        "every attempt, or for 1-2 attempts); a leader dying for good at any point (acks 1 and 0).  Every schedule within the deviation bound runs to quiescence.  Oracle: "
        "each send Deferred fires exactly once; success value is a ProduceResponse (error 0, right topic) matching a "
        "request the partition leader applied that contains exactly the send's (key, value) list at that offset, or "
        "None for acks=0 after the bytes were written; never an exception object; nothing is written after stop().  "
        "Non-trivial = a fault was taken or a send was cancelled/stopped; distinct = distinct outcome vectors.")
ASSUME = ["SimCluster (ref/simcluster.py) is Kafka; no replication (acks -1 behaves like 1)",
          "small scope: 2 brokers, 3 partitions, <= 3 sends, deviation bounds as stated in the notes"]


def run(tier, seed, only=None):
    if tier == "quick":
        plans = [("all-configs-1dev", configs(tier), (1, 1, 1)),
                 ("half-configs-2dev", configs(tier)[::2], (1, 1, 2)),
                 ("core-2dev", core_configs(tier), (2, 1, 2)),
                 ("queued-stop-cancel", queued_configs(tier), (1, 1, 2)),
                 ("persistent-faults", persistent_configs(tier), (0, 1, 1)),
                 ("dead-leader", dead_leader_configs(tier), (1, 1, 2))]
    else:
        plans = [("all-configs-2dev", configs(tier), (2, 1, 2)),
                 ("third-of-configs-3dev", configs(tier)[::3], (2, 1, 3)),
                 ("core-3dev", core_configs(tier), (2, 2, 3)),
                 ("queued-stop-cancel", queued_configs(tier), (2, 2, 3)),
                 ("persistent-faults", persistent_configs(tier), (1, 1, 2)),
                 ("dead-leader", dead_leader_configs(tier), (1, 2, 3))]
    if only:
        plans = [p for p in plans if p[0] in only]
    return _dfs.run_plans(PROPERTY, SPEC, plans, seed, RULE, ASSUME)
