"""C17 -- a started group member always progresses toward stable membership.

Deviation-bounded stateless DFS over the real ConsumerGroup + KafkaClient: a
fault is injected at every step of the join protocol and every execution then
continues with the fault-free default schedule; the member must be stable in the
coordinator's current generation, with its partitions consumed, within the
horizon of virtual time (bounded liveness checked on the real code).
"""
import itertools

from checks import _dfs

PROPERTY = "C17"
SPEC = "harness.group:GroupWorld"
replay = _dfs.replay

CLUSTER = {"brokers": [1, 2], "topics": {"t": {"0": 1, "1": 2}}, "coordinator": 2}
ERRS = {"10": [15, 16], "11": [14, 15, 16, 25, 27, 23], "14": [14, 15, 16, 22, 25, 27], "12": [15, 16, 22, 25, 27],
        "8": [22, 25, 27, 16], "3": [5], "9": [14, 16], "1": [6]}
EVENTS = [["phantom_joins", "grp"], ["phantom_leaves", "grp"], ["evict", "grp"], ["coordinator", "grp", 1],
          ["restart", 2], ["fail_over", 2, 1]]
MENU = {"err": ERRS, "silent": True, "drop": True, "refuse": True, "timer_early": True, "cluster_events": EVENTS}
MENU_LIGHT = {"err": {"11": [27, 25], "14": [27, 22], "12": [27, 25], "10": [15], "3": [5]}, "silent": True,
              "drop": True, "cluster_events": EVENTS[:3] + [EVENTS[5]]}


def configs(tier, menu):
    out = []
    for leader, phantom, proc in itertools.product(["real", "phantom"], [False, True], ["sync"]):
        if leader == "phantom" and not phantom:
            continue
        grp = {"leader": leader, "phantom_topics": ["t"], "phantom_active": phantom}
        out.append({"cluster": CLUSTER, "discovery": False, "timeout_ms": 5000, "topics": ["t"],
                    "logs": {"t/0": 2, "t/1": 1}, "group": grp, "processor": proc, "commit_every_n": 1,
                    "script": [["start"]], "menu": menu, "horizon_s": 600})
    return out


def sticky_configs():
    """Transient outages lasting several requests: metadata (or coordinator lookup, join, heartbeat) swallowed or
    answered with an error for the next k requests, then the cluster is healthy again."""
    out = []
    modes = []
    for k in (2, 3, 4, 6, 8):
        modes.append({"api": 3, "silent": True, "budget": k})
    for k in (1, 2, 4):
        modes.append({"api": 10, "err": 15, "budget": k})
        modes.append({"api": 10, "silent": True, "budget": k})
        modes.append({"api": 11, "silent": True, "budget": k})
        modes.append({"api": 11, "err": 15, "budget": k})
        modes.append({"api": 14, "err": 27, "budget": k})
    for mode, leader in itertools.product(modes, ["real", "phantom"]):
        grp = {"leader": leader, "phantom_topics": ["t"], "phantom_active": leader == "phantom"}
        out.append({"cluster": dict(CLUSTER, modes=[mode]), "discovery": False, "timeout_ms": 5000, "topics": ["t"],
                    "logs": {"t/0": 2, "t/1": 1}, "group": grp, "processor": "sync", "commit_every_n": 1,
                    "script": [["start"]], "menu": {"timer_early": True}, "horizon_s": 900})
    return out


def nonkafka_configs():
    out = []
    for k in (0, 1):
        out.append({"cluster": CLUSTER, "discovery": False, "timeout_ms": 5000, "topics": ["t"],
                    "logs": {"t/0": 2, "t/1": 1}, "group": {"leader": "real"}, "processor": "sync",
                    "proc_raises": k, "script": [["start"]], "menu": {"timer_early": True}, "horizon_s": 300})
    # the processor's Deferred fails later, possibly while a rebalance is already shutting its consumer down
    for mode in (None, {"api": 12, "err": 27, "budget": 1}, {"api": 12, "err": 25, "budget": 1}):
        cl = dict(CLUSTER, modes=[mode]) if mode else CLUSTER
        out.append({"cluster": cl, "discovery": False, "timeout_ms": 5000, "topics": ["t"],
                    "logs": {"t/0": 2, "t/1": 1}, "group": {"leader": "real"}, "processor": "async",
                    "script": [["start"]], "menu": {"timer_early": True, "proc_fail": True, "proc_early": True},
                    "horizon_s": 300})
    return out


RULE = ("real ConsumerGroup + KafkaClient with the simulated coordinator (member under test +/- phantom member, either "
        "as leader); a fault is injected at every step of the protocol: FindCoordinator {15,16}, topic metadata "
        "{5, unavailable}, JoinGroup {14,15,16,25,27,23}, the leader's partition lookup, SyncGroup {14,15,16,22,25,"
        "27}, Heartbeat {15,16,22,25,27}, consumer requests (OffsetFetch {14,16}, Fetch {6}, OffsetCommit {22,25,27,"
        "16}), silent broker (-> timeout), drop, refused connection, coordinator move, broker restart, phantom joins "
        "/ leaves, eviction; <=1 fault on all configurations and <=2 on a light menu (quick), <=2 / <=3 (thorough); "
        "every execution then follows the fault-free default schedule.  Oracle (bounded liveness on the real code): "
        "within 600 virtual seconds the coordinator lists the member in its current generation and everything in "
        "its assigned partitions has been consumed -- or the start Deferred has fired with the processor's non-Kafka "
        "error (raised synchronously, or an asynchronous processor result failing at any later point, also while a "
        "rebalance is shutting its consumer down); the start Deferred never fails with a Kafka error; every scheduled rejoin uses a documented backoff "
        "(retry 0.1 s for rebalance/eviction answers, initial 1 s, fatal 10 s).")
ASSUME = ["SimGroup is the coordinator", "faults cease after the injected ones (fault-free continuation)"]


def run(tier, seed, only=None):
    if tier == "quick":
        plans = [("join-protocol-1fault", configs(tier, MENU), (1, 1, 2)),
                 ("join-protocol-2faults-light", configs(tier, MENU_LIGHT)[:2], (2, 0, 2)),
                 ("transient-outages", sticky_configs(), (0, 1, 1)),
                 ("non-kafka-error", nonkafka_configs(), (1, 2, 3))]
    else:
        plans = [("join-protocol-2faults", configs(tier, MENU), (2, 1, 2)),
                 ("join-protocol-3faults-light", configs(tier, MENU_LIGHT), (3, 0, 3)),
                 ("transient-outages", sticky_configs(), (1, 1, 2)),
                 ("non-kafka-error", nonkafka_configs(), (2, 2, 4))]
    if only:
        plans = [p for p in plans if p[0] in only]
    return _dfs.run_plans(PROPERTY, SPEC, plans, seed, RULE, ASSUME, max_steps=600)
