"""C12 -- corrupted or truncated message data is never delivered as a message.

Exhaustive fault enumeration over a reference-generated corpus:
 (i)   every single-bit flip of every message (CRC field + checksummed region),
 (ii)  every burst (start bit x length 2..Lmax, all interior patterns up to Pmax bits,
       three fixed patterns above),
 (iii) every truncation point of every message set,
 (iv)  every truncation and every 1/2/4-byte field overwrite with hostile values of
       valid responses, for every decoder; cost (traced line events, tracemalloc peak)
       must stay linear in the input length,
 (v)   all byte strings of length <= 5 over {00,01,7f,80,ff} into every decoder.
The consumer half of the property (buffer growth instead of skipping) is
explored by the consumer harness (checks C02/C14).
"""
import itertools
import struct
import sys
import tracemalloc
import zlib

from mc import enum
from mc.explore import _digest
from mc.runner import Report
from ref import refkafka as rk

PROPERTY = "C12"


def corpus():
    """(name, [msg dicts]) -- one message set per shape class."""
    out = []
    for magic in (0, 1):
        ts = 1234567890123 if magic else None
        out.append(("plain1-m%d" % magic, [rk.msg(5, b"key", b"value", magic=magic, timestamp=ts)]))
        out.append(("plain-null-m%d" % magic, [rk.msg(0, None, None, magic=magic, timestamp=ts)]))
        out.append(("plain-empty-m%d" % magic, [rk.msg(2 ** 62, b"", b"", magic=magic, timestamp=ts)]))
        out.append(("plain3-m%d" % magic, [rk.msg(10 + i, b"k%d" % i, b"val-%d" % i, magic=magic, timestamp=ts)
                                           for i in range(3)]))
        for codec in (1, 2):
            inner = [rk.msg((20 + i) if magic == 0 else i, b"k", b"in%d" % i, magic=magic, timestamp=ts)
                     for i in range(3)]
            out.append(("wrap-c%d-m%d" % (codec, magic),
                        [rk.msg(22, None, None, magic=magic, attributes=codec, inner=inner, timestamp=ts)]))
            out.append(("wrap-then-plain-c%d-m%d" % (codec, magic),
                        [rk.msg(22, None, None, magic=magic, attributes=codec, inner=inner, timestamp=ts),
                         rk.msg(23, b"t", b"tail", magic=magic, timestamp=ts)]))
    return out


def _decode_all(data):
    from afkak.kafkacodec import KafkaCodec as K
    return list(K._decode_message_set_iter(data))


def _leaves(oms):
    return [(om.offset, om.message.key, om.message.value) for om in oms]


def _flip_case(data, lo, hi, before, mask_bits, pos):
    """Apply XOR mask (list of bit offsets relative to pos) inside data."""
    b = bytearray(data)
    for off in mask_bits:
        bit = pos + off
        b[bit >> 3] ^= 0x80 >> (bit & 7)
    return bytes(b)


def bits_unit(u):
    """(i)+(ii) for one corpus set / one message inside it."""
    from afkak.common import ChecksumError
    st = enum.EnumStats()
    name, msgs = corpus()[u["set"]]
    data = rk.encode_message_set(msgs)
    # locate message u['msg'] inside the set: [offset 8][size 4][crc 4][body...]
    pos = 0
    spans = []
    while pos < len(data):
        (size,) = struct.unpack_from(">i", data, pos + 8)
        spans.append((pos + 12, pos + 12 + size))  # crc + checksummed region
        pos += 12 + size
    lo, hi = spans[u["msg"]]
    preceding = len(rk.flatten(msgs[:u["msg"]]))
    sigs = set()
    lmax, pmax = u["lmax"], u["pmax"]

    def check(mut, desc):
        st.evaluations += 1
        got = []
        verdict = None
        from afkak.kafkacodec import KafkaCodec as K
        try:
            for om in K._decode_message_set_iter(mut):
                got.append(om)
            verdict = "no-error"
        except ChecksumError:
            verdict = "checksum"
        except Exception as e:
            verdict = "other:" + type(e).__name__
        if verdict == "checksum" and len(got) == preceding:
            return
        sig = "C12:altered-message-%s:%s" % ("delivered" if len(got) > preceding else "not-rejected-by-checksum",
                                              verdict)
        if sig not in sigs:
            sigs.add(sig)
            st.violations.append({"oracle": "checksum", "signature": sig,
                                  "message": "set %s message %d, %s: decoder verdict %s, yielded %d messages "
                                  "(only the %d before the altered one may be yielded, then ChecksumError)" % (
                                      name, u["msg"], desc, verdict, len(got), preceding),
                                  "input": {"unit": u, "desc": desc}, "check": "checks.C12"})

    nbits = (hi - lo) * 8
    base = lo * 8
    # (i) single bits
    for b in range(nbits):
        check(_flip_case(data, lo, hi, preceding, (0,), base + b), "bit %d flipped" % b)
    st.classes.add(_digest((name, u["msg"], "bits")))
    # (ii) bursts
    for L in range(2, lmax + 1):
        if L <= pmax:
            interiors = range(1 << (L - 2))
        else:
            full = (1 << (L - 2)) - 1
            alt = int("10" * L, 2) & full
            interiors = sorted({0, full, alt})
        for start in range(0, nbits - L + 1):
            for interior in interiors:
                bits = [0, L - 1] + [1 + i for i in range(L - 2) if (interior >> i) & 1]
                check(_flip_case(data, lo, hi, preceding, bits, base + start),
                      "burst start=%d len=%d interior=%x" % (start, L, interior))
        st.classes.add(_digest((name, u["msg"], "burst", L)))
    # corrupted inner message inside a re-compressed, re-checksummed wrapper
    m = msgs[u["msg"]]
    if m["inner"]:
        inner_bytes = rk.encode_message_set(m["inner"])
        for b in range(12 * 8, len(inner_bytes) * 8, 5):
            # skip flips that land in an inner offset/size field (not checksummed)
            p = 0
            in_checksummed = False
            while p < len(inner_bytes):
                (size,) = struct.unpack_from(">i", inner_bytes, p + 8)
                if p + 12 <= (b >> 3) < p + 12 + size:
                    in_checksummed = True
                p += 12 + size
            if not in_checksummed:
                continue
            mut_inner = bytearray(inner_bytes)
            mut_inner[b >> 3] ^= 0x80 >> (b & 7)
            comp = rk.gzip_compress(bytes(mut_inner)) if (m["attributes"] & 7) == 1 else \
                rk.snappy_compress(bytes(mut_inner))
            w = dict(m, value=comp, inner=None)
            mut = rk.encode_message_set(msgs[:u["msg"]] + [w] + msgs[u["msg"] + 1:])
            st.evaluations += 1
            got = []
            try:
                from afkak.kafkacodec import KafkaCodec as K
                for om in K._decode_message_set_iter(mut):
                    got.append(om)
                verdict = "no-error"
            except ChecksumError:
                verdict = "checksum"
            except Exception as e:
                verdict = "other:" + type(e).__name__
            # messages before the corrupted inner one may be yielded; the corrupted one never
            want_all = _leaves_ref(msgs)
            if verdict != "checksum" or _leaves(got) != want_all[:len(got)] or len(got) >= len(want_all):
                sig = "C12:altered-inner-message:%s" % verdict
                if sig not in sigs:
                    sigs.add(sig)
                    st.violations.append({"oracle": "checksum", "signature": sig,
                                          "message": "set %s: bit %d of the inner set flipped inside a valid wrapper: "
                                          "verdict %s, yielded %r" % (name, b, verdict, _leaves(got)),
                                          "input": {"unit": u}, "check": "checks.C12"})
        st.classes.add(_digest((name, u["msg"], "inner")))
    if not st.samples and u["msg"] == 0 and u["set"] == 0:
        st.samples.append({"set": name, "fault": "burst start=7 len=9 interior=0x55", "expect": "ChecksumError"})
    return st


def _leaves_ref(msgs):
    return [(m["offset"], m["key"], m["value"]) for m in rk.flatten(msgs, absolute=True)]


def trunc_unit(u):
    """(iii) every truncation point of every corpus set."""
    from afkak.common import ConsumerFetchSizeTooSmall
    st = enum.EnumStats()
    sigs = set()
    for name, msgs in corpus():
        data = rk.encode_message_set(msgs)
        # boundaries of top-level entries
        bounds = [0]
        pos = 0
        while pos < len(data):
            (size,) = struct.unpack_from(">i", data, pos + 8)
            pos += 12 + size
            bounds.append(pos)
        for cut in range(0, len(data) + 1):
            st.evaluations += 1
            complete = max(i for i, b in enumerate(bounds) if b <= cut)
            want = _leaves_ref(msgs[:complete])
            try:
                got = _leaves(_decode_all(data[:cut]))
                verdict = "ok"
            except ConsumerFetchSizeTooSmall:
                got, verdict = None, "too-small"
            except Exception as e:
                got, verdict = None, "raised:" + type(e).__name__
            if complete == 0 and cut > 0:
                ok = verdict == "too-small"
            else:
                ok = verdict == "ok" and got == want
            if not ok:
                sig = "C12:truncation:%s:%s" % ("none-complete" if complete == 0 else "some-complete", verdict)
                if sig not in sigs:
                    sigs.add(sig)
                    st.violations.append({"oracle": "truncation", "signature": sig,
                                          "message": "set %s cut at %d of %d (%d complete entries): verdict %s, "
                                          "yielded %r, expected %r" % (name, cut, len(data), complete, verdict, got,
                                                                        want if complete or cut == 0 else
                                                                        "ConsumerFetchSizeTooSmall"),
                                          "input": {"unit": u}, "check": "checks.C12"})
            st.classes.add(_digest((name, complete, cut in bounds)))
    st.samples.append({"set": "plain3-m0", "cut": "every byte position", "expect": "complete prefix or "
                       "ConsumerFetchSizeTooSmall"})
    return st


# ---------------------------------------------------------------------------
HOSTILE = [-2, -1, 0, 1, 0x7FFF, 0x7FFFFFFF, 0x80000000, 0xFFFFFFFF]


def decoders():
    from afkak.kafkacodec import KafkaCodec as K

    def drain(f):
        def g(data):
            r = f(data)
            out = []
            for x in r:
                msgs = getattr(x, "messages", None)
                if msgs is not None and not isinstance(msgs, (list, tuple)):
                    out.append(list(msgs))
                out.append(x)
            return out
        return g

    return {
        "produce0": drain(lambda d: K.decode_produce_response(d, 0)),
        "produce2": drain(lambda d: K.decode_produce_response(d, 2)),
        "fetch0": drain(lambda d: K.decode_fetch_response(d, 0)),
        "fetch2": drain(lambda d: K.decode_fetch_response(d, 2)),
        "offsets": drain(K.decode_offset_response),
        "metadata": K.decode_metadata_response,
        "coordinator": K.decode_consumermetadata_response,
        "commit": drain(K.decode_offset_commit_response),
        "offsetfetch": drain(K.decode_offset_fetch_response),
        "join": K.decode_join_group_response,
        "heartbeat": K.decode_heartbeat_response,
        "leave": K.decode_leave_group_response,
        "sync": K.decode_sync_group_response,
        "apiversions": K.decode_api_versions_response,
        "subscription": K.decode_join_group_protocol_metadata,
        "assignment": K.decode_sync_group_member_assignment,
        "msgset": drain(K._decode_message_set_iter),
        "corrid": K.get_response_correlation_id,
    }


def valid_responses():
    """name -> list of valid encoded responses (reference encoder)."""
    ms = rk.encode_message_set([rk.msg(3, b"k", b"v"), rk.msg(4, None, b"w" * 20)])
    wr = rk.encode_message_set([rk.msg(9, None, None, magic=1, attributes=1, timestamp=5, inner=[
        rk.msg(0, b"a", b"b", magic=1, timestamp=5), rk.msg(1, b"c", b"d", magic=1, timestamp=5)])])
    tp = lambda parts: [{"topic": "topic-1", "partitions": parts}, {"topic": "u", "partitions": parts[:1]}]
    R = rk.encode_response
    return {
        "produce0": [R(rk.PRODUCE, 0, 7, {"topics": tp([{"partition": 0, "error": 0, "offset": 10},
                                                          {"partition": 1, "error": 6, "offset": -1}])})],
        "produce2": [R(rk.PRODUCE, 2, 7, {"topics": tp([{"partition": 0, "error": 0, "offset": 10,
                                                           "log_append_time": -1}]), "throttle_ms": 0})],
        "fetch0": [R(rk.FETCH, 0, 7, {"topics": tp([{"partition": 0, "error": 0, "high_watermark": 9,
                                                       "records": ms}])})],
        "fetch2": [R(rk.FETCH, 2, 7, {"throttle_ms": 0, "topics": tp([{"partition": 0, "error": 0,
                                                                         "high_watermark": 9, "records": wr}])})],
        "offsets": [R(rk.LIST_OFFSETS, 0, 7, {"topics": tp([{"partition": 0, "error": 0, "offsets": [5, 0]}])})],
        "metadata": [R(rk.METADATA, 0, 7, {"brokers": [{"node_id": 1, "host": "h1", "port": 9092},
                                                        {"node_id": 2, "host": "h2", "port": 9093}],
                                           "topics": [{"error": 0, "topic": "t", "partitions": [
                                               {"error": 0, "partition": 0, "leader": 1, "replicas": [1, 2],
                                                "isr": [1]},
                                               {"error": 0, "partition": 1, "leader": 2, "replicas": [2],
                                                "isr": [2]}]}]})],
        "coordinator": [R(rk.FIND_COORDINATOR, 0, 7, {"error": 0, "node_id": 1, "host": "host", "port": 9092})],
        "commit": [R(rk.OFFSET_COMMIT, 1, 7, {"topics": tp([{"partition": 0, "error": 0}])})],
        "offsetfetch": [R(rk.OFFSET_FETCH, 1, 7, {"topics": tp([{"partition": 0, "offset": 5, "metadata": "md",
                                                                  "error": 0}])})],
        "join": [R(rk.JOIN_GROUP, 0, 7, {"error": 0, "generation": 1, "protocol": "consumer", "leader": "m1",
                                         "member": "m1", "members": [{"member": "m1", "metadata": b"abc"},
                                                                     {"member": "m2", "metadata": b""}]})],
        "heartbeat": [R(rk.HEARTBEAT, 0, 7, {"error": 0})],
        "leave": [R(rk.LEAVE_GROUP, 0, 7, {"error": 0})],
        "sync": [R(rk.SYNC_GROUP, 0, 7, {"error": 0, "assignment": b"\x00\x00\x00\x00\x00\x00"})],
        "apiversions": [R(rk.API_VERSIONS, 0, 7, {"error": 0, "versions": [
            {"api_key": 0, "min": 0, "max": 7}, {"api_key": 1, "min": 0, "max": 11}]})],
        "subscription": [rk.SUBSCRIPTION.enc({"version": 0, "topics": ["t", "u"], "user_data": b"x"})],
        "assignment": [rk.ASSIGNMENT.enc({"version": 0, "topics": [{"topic": "t", "partitions": [0, 1]}],
                                          "user_data": None})],
        "msgset": [ms, wr],
        "corrid": [b"\x00\x00\x00\x07"],
    }


class _OverBudget(BaseException):
    pass


class _Cost(object):
    """Deterministic cost of one call: traced line events inside afkak + tracemalloc peak."""

    def __init__(self):
        self.lines = 0

    def _local(self, frame, event, arg):
        if event == "line":
            self.lines += 1
            if self.lines > self.cap:
                raise _OverBudget()  # a runaway decode is cut off (and reported) instead of being waited for
        return self._local

    def _global(self, frame, event, arg):
        if "afkak" in frame.f_code.co_filename:
            return self._local
        return None

    cap = 10 ** 9

    def measure(self, fn, data):
        self.lines = 0
        self.cap = 4 * (LINES_PER_BYTE * len(data) + LINES_BASE)
        tracemalloc.start()
        tracemalloc.reset_peak()
        base = tracemalloc.get_traced_memory()[0]
        sys.settrace(self._global)
        try:
            try:
                fn(data)
                verdict = "value"
            except Exception as e:
                verdict = "exc:" + type(e).__name__
            except _OverBudget:
                verdict = "overbudget"
            except BaseException as e:  # pragma: no cover
                verdict = "base:" + type(e).__name__
        finally:
            sys.settrace(None)
        peak = tracemalloc.get_traced_memory()[1] - base
        tracemalloc.stop()
        return verdict, self.lines, peak


LINES_PER_BYTE, LINES_BASE = 40, 400
MEM_PER_BYTE, MEM_BASE = 64, 1 << 20


def hostile_unit(u):
    """(iv) for one decoder."""
    st = enum.EnumStats()
    name = u["decoder"]
    fn = decoders()[name]
    cost = _Cost()
    sigs = set()

    def run(data, desc):
        st.evaluations += 1
        verdict, lines, peak = cost.measure(fn, data)
        n = len(data)
        bad = None
        if verdict.startswith("base:"):
            bad = ("C12:decoder-%s-escapes:%s" % (name, verdict), "non-Exception %s" % verdict)
        elif lines > LINES_PER_BYTE * n + LINES_BASE:
            bad = ("C12:decoder-%s-superlinear-time" % name, "%d traced lines for %d input bytes" % (lines, n))
        elif peak > MEM_PER_BYTE * n + MEM_BASE:
            bad = ("C12:decoder-%s-superlinear-memory" % name, "%d bytes allocated for %d input bytes" % (peak, n))
        if bad and bad[0] not in sigs:
            sigs.add(bad[0])
            st.violations.append({"oracle": "bounded-decode", "signature": bad[0],
                                  "message": "%s: %s (input %s)" % (desc, bad[1], data[:80].hex()),
                                  "input": {"unit": u, "data": data.hex()[:4000]}, "check": "checks.C12"})
        st.classes.add(_digest((name, verdict, desc.split("@")[0])))

    for valid in valid_responses()[name]:
        fn(valid)  # warm caches (struct formats, codecs) so that measured allocations are per-call only
        run(valid, "valid")
        for cut in range(len(valid)):
            run(valid[:cut], "truncated@%d" % cut)
        for width, fmt in ((1, ">B"), (2, ">H"), (4, ">I")):
            for pos in range(0, len(valid) - width + 1):
                for hv in HOSTILE:
                    b = bytearray(valid)
                    b[pos:pos + width] = struct.pack(fmt, hv & ((1 << (8 * width)) - 1))
                    run(bytes(b), "overwrite%d@%d" % (width, pos))
        # two cooperating fields: a count that claims 2^31-1 elements and, later, a 2- or 4-byte length that would
        # move the cursor back to any earlier position (a decoder that honours it re-reads the same bytes for ever)
        n = len(valid)
        for p1 in range(0, n - 3):
            if not 0 <= int.from_bytes(valid[p1:p1 + 4], "big") <= 16:
                continue  # counts of the valid responses are small
            for width, fmt in ((4, ">i"), (2, ">h")):
                for p2 in range(p1 + 4, n - width + 1):
                    # back to the first element of the array whose count was enlarged (the position at which a
                    # decoder loop would start over)
                    back = (p1 + 4) - (p2 + width)
                    if back >= -1:
                        continue
                    b = bytearray(valid)
                    b[p1:p1 + 4] = struct.pack(">i", 0x7FFFFFFF)
                    b[p2:p2 + width] = struct.pack(fmt, back)
                    run(bytes(b), "count@%d+backjump%d" % (p1, width))
    if name == "metadata":
        st.samples.append({"decoder": name, "fault": "every 1/2/4-byte window overwritten with %r" % (HOSTILE,)})
    return st


def short_unit(u):
    """(v) all short strings over a small hostile alphabet into every decoder."""
    st = enum.EnumStats()
    sigs = set()
    alpha = bytes([0x00, 0x01, 0x7F, 0x80, 0xFF])
    ds = decoders()
    cost = _Cost()
    for n in range(0, u["maxlen"] + 1):
        for t in itertools.product(alpha, repeat=n):
            data = bytes(t)
            for name, fn in ds.items():
                st.evaluations += 1
                try:
                    fn(data)
                    verdict = "value"
                except Exception as e:
                    verdict = "exc:" + type(e).__name__
                except BaseException as e:  # pragma: no cover
                    verdict = "base:" + type(e).__name__
                    sig = "C12:decoder-%s-escapes:%s" % (name, verdict)
                    if sig not in sigs:
                        sigs.add(sig)
                        st.violations.append({"oracle": "bounded-decode", "signature": sig,
                                              "message": "input %s" % data.hex(),
                                              "input": {"unit": u}, "check": "checks.C12"})
                st.classes.add(_digest((name, n, verdict)))
    st.samples.append({"input_hex": "80ffffff7f", "decoders": len(ds)})
    return st


def replay(v):
    if v.get("harness"):
        from checks import _dfs
        return _dfs.replay(v)
    u = v["input"]["unit"]
    if "set" in u:
        st = bits_unit(u)
    elif "decoder" in u:
        st = hostile_unit(u)
    elif "maxlen" in u:
        st = short_unit(u)
    else:
        st = trunc_unit(u)
    return [x for x in st.violations if x["signature"] == v["signature"]]


def run(tier, seed, only=None):
    rep = Report(PROPERTY, "fault_enumeration")
    lmax, pmax = (16, 8) if tier == "quick" else (32, 10)
    sets = corpus()
    units = []
    for si, (name, msgs) in enumerate(sets):
        for mi in range(len(msgs)):
            units.append({"set": si, "msg": mi, "lmax": lmax, "pmax": pmax})
    st = enum.run_units("checks.C12:bits_unit", units, seed)
    enum.fold(rep, "bit-and-burst-faults", st)
    st = enum.run_units("checks.C12:trunc_unit", [{}], seed)
    enum.fold(rep, "truncations", st)
    st = enum.run_units("checks.C12:hostile_unit", [{"decoder": d} for d in sorted(valid_responses())], seed)
    enum.fold(rep, "hostile-fields", st)
    st = enum.run_units("checks.C12:short_unit", [{"maxlen": 5}], seed)
    enum.fold(rep, "short-strings", st)
    # consumer half: a truncated first message makes the consumer enlarge its buffer, never skip
    from checks import C14, _dfs
    cfgs = C14.buffer_configs(tier)
    if tier == "quick":
        cfgs = cfgs[::2]
    _dfs.run_plans(PROPERTY, "harness.consumer:ConsumerWorld",
                   [("consumer-buffer-growth", cfgs, (0, 0, 0) if tier == "quick" else (1, 0, 1))],
                   seed, "", [], rep=rep)
    # consumer half, in situ: bit errors in flight in the 1st/2nd/3rd message of any fetch answer (plain messages
    # and compressed wrappers, both formats): what reaches the processor is exactly what the log holds
    from checks import C02
    ccfgs = [dict(c, menu={"corrupt": [0, 1, 2], "proc_early": True}, check_delivery=True, expect_start_failure=True)
             for c in C02.configs(tier, {})
             if c["start"] in ("earliest", 3, 1002)]
    _dfs.run_plans(PROPERTY, "harness.consumer:ConsumerWorld",
                   [("consumer-bit-errors-in-flight", ccfgs, (2, 1, 2) if tier == "quick" else (3, 1, 4))],
                   seed, "", [], rep=rep, max_steps=400)
    rep.level = "fault_enumeration"
    rep.coverage["burst_cap"] = ("bursts up to %d bits; all interior patterns up to %d bits, patterns {none, "
                                 "all, alternating} above" % (lmax, pmax))
    rep.coverage["rule"] = (
        "corpus of %d reference-encoded message sets (both magics, plain / gzip / snappy-shim wrappers, wrapper "
        "followed by plain); every bit of every message's CRC+checksummed region flipped; every burst as capped in "
        "burst_cap; bit flips of inner messages re-wrapped in a valid wrapper; every truncation point of every set; "
        "for each of %d decoders every truncation and every 1/2/4-byte window of a valid response overwritten with "
        "each of %r, and every pair (a small integer replaced by 2^31-1, a later 2/4-byte field replaced by the "
        "negative length that would move the cursor back to the first element after that integer), under a traced-line and "
        "tracemalloc budget linear in the input; all strings of length <= 5 "
        "over {00,01,7f,80,ff} into every decoder; consumer half: the real Consumer on the (initial buffer, "
        "maximum, message size) grid of C14 must grow its fetch size by the documented rule, fail only when the "
        "maximum is too small and deliver the big message; and with a bit error injected in flight into the "
        "1st/2nd/3rd message of any fetch answer (every C02 log, both formats, sync and async processor) deliver "
        "exactly the log's entries, each once.  Distinct non-trivial = distinct (set, message, fault kind, "
        "burst length) / (decoder, verdict class, fault kind) classes." % (
            len(sets), len(valid_responses()), HOSTILE))
    rep.assumptions = ["compression bombs are out of scope (the statement is about length fields)",
                       "cost is measured deterministically (traced line events in afkak, tracemalloc peak), "
                       "budget lines <= %d*len+%d, bytes <= %d*len+%d" % (LINES_PER_BYTE, LINES_BASE, MEM_PER_BYTE,
                                                                           MEM_BASE),
                       "random byte strings are replaced by systematic mutation and small-alphabet exhaustive "
                       "strings (sampling is a different family)"]
    return rep
