"""C14 -- consumer retries, offset-reset policy and buffer growth follow the contract.

Deviation-bounded stateless DFS over the real Consumer + KafkaClient where the
only deviations are failing answers to the consumer's own requests, so the
explored set is exactly "all words of failures and successes up to a length";
plus an exhaustive grid of (initial buffer, maximum buffer, message size).
"""
import itertools

from checks import _dfs

PROPERTY = "C14"
SPEC = "harness.consumer:ConsumerWorld"
replay = _dfs.replay

CLUSTER = {"brokers": [1], "topics": {"t": {"0": 1}}}
LOG = [["base", 1000], ["p", "k0", "v0"], ["p", "k1", "v1"], ["p", "k2", "v2"]]
# retriable error (6), transport failure (drop / silent->timeout), out-of-range (1)
MENU = {"err": {"1": [6, 1], "2": [6], "9": [16]}, "drop": True, "silent": True}
KiB, MiB = 1024, 1024 * 1024


def word_configs(tier):
    out = []
    for (init, mx), limit, policy, start in itertools.product(
            [(0.1, 0.15), (1.0, 30.0)], [0, 1, 2, 3], [None, "earliest", "latest"], ["earliest", 1001, 2000, 5]):
        if start in (2000, 5) and (init, mx) != (0.1, 0.15):
            continue
        cons = {"buffer_size": 200, "request_retry_init_delay": init, "request_retry_max_delay": mx,
                "request_retry_max_attempts": limit}
        if policy:
            cons["auto_offset_reset"] = policy
        cfg = {"cluster": CLUSTER, "discovery": False, "log": LOG, "magic": 0, "start": start, "processor": "sync",
               "consumer": cons, "script": [["start"]], "menu": MENU, "timeout_ms": 2000, "horizon_s": 400,
               "expect_start_failure": True}
        if policy == "latest" or start == 2000:
            cfg["script"] = [["start"], ["append", "n0", "late0", {"time": 0.01}]]
        out.append(cfg)
    # a consumer at the log end: fetches succeed without returning anything for a while (a success all the same)
    for limit in (0, 3):
        cons = {"buffer_size": 200, "request_retry_init_delay": 1.0, "request_retry_max_delay": 30.0,
                "request_retry_max_attempts": limit, "fetch_max_wait_time": 2000}
        out.append({"cluster": CLUSTER, "discovery": False, "log": LOG, "magic": 0, "start": "latest",
                    "processor": "sync", "consumer": cons,
                    "script": [["start"], ["append", "n0", "late0", {"time": 7.0}]], "menu": MENU,
                    "timeout_ms": 4000, "horizon_s": 400, "expect_start_failure": True})
    # start from the group's committed position: the OffsetFetch exchange is part of the same retry sequence
    for (init, mx), limit, stored in itertools.product([(0.1, 0.15), (1.0, 30.0)], [0, 3], [None, 1001]):
        cons = {"buffer_size": 200, "request_retry_init_delay": init, "request_retry_max_delay": mx,
                "request_retry_max_attempts": limit, "auto_commit_every_n": 0, "auto_commit_every_ms": 0,
                "auto_offset_reset": "earliest"}
        cfg = {"cluster": dict(CLUSTER, coordinator=1), "discovery": False, "log": LOG, "magic": 0,
               "start": "committed", "group": True, "processor": "sync", "consumer": cons, "script": [["start"]],
               "menu": MENU, "timeout_ms": 2000, "horizon_s": 400, "expect_start_failure": True}
        if stored is not None:
            cfg["stored"] = stored
        out.append(cfg)
    return out


def buffer_configs(tier):
    out = []
    inits = [64 * KiB, MiB, MiB + 1, 2 * MiB]
    for init in inits:
        sizes = [init - 100, init + 1, MiB + 1, 3 * MiB] + ([5 * MiB] if tier != "quick" else [])
        for size in sorted(set(sizes)):
            need = size + 26 + 3  # offset + size + crc/magic/attr + key("big") + value length
            maxes = [None, init, 16 * init, need - 1, need, need + 7]
            for mx in maxes:
                if mx is not None and mx < init:
                    continue
                cons = {"buffer_size": init}
                if mx is not None:
                    cons["max_buffer_size"] = mx
                out.append({"cluster": CLUSTER, "discovery": False, "log": [["p", "k0", "v0"], ["big", size],
                                                                             ["p", "k2", "v2"]],
                            "magic": 0, "start": "earliest", "processor": "sync", "consumer": cons,
                            "script": [["start"]], "menu": {"err": {"1": [6]}}, "timeout_ms": 20000,
                            "horizon_s": 400, "expect_start_failure": True})
    return out


def restart_configs(tier):
    """A graceful shutdown (which bounds its own retries) whose final commit is rejected or succeeds, then the same
    consumer is started again: the configured retry policy (unlimited, or its own limit) applies again."""
    out = []
    for limit, commit_mode in itertools.product([0, 3], [None, {"api": 8, "err": 22, "budget": 2},
                                                          {"api": 8, "silent": True, "budget": 2}]):
        cl = dict(CLUSTER, coordinator=1)
        if commit_mode:
            cl["modes"] = [commit_mode]
        cons = {"buffer_size": 200, "request_retry_init_delay": 0.1, "request_retry_max_delay": 0.15,
                "request_retry_max_attempts": limit, "auto_commit_every_n": 0, "auto_commit_every_ms": 0}
        out.append({"cluster": cl, "discovery": False, "log": LOG, "magic": 0, "start": "earliest", "group": True,
                    "processor": "sync", "consumer": cons,
                    "script": [["start"], ["shutdown", {"delivered": 3}], ["restart", 1001, {"stopped": True}]],
                    "menu": {"err": {"1": [6]}, "silent": True}, "timeout_ms": 2000, "horizon_s": 400,
                    "expect_start_failure": True})
    return out


RULE = ("retry words: every sequence of answers {ok, error 6, out-of-range, silent->timeout, drop} to the consumer's "
        "successive ListOffsets/Fetch requests with at most 3 (quick) / 5 (thorough) failures, for init/max delay "
        "{(0.1, 0.15), (1, 30)} x attempt limit {0,1,2,3} x reset policy {None, earliest, latest} x start {earliest, "
        "in range, beyond the log end, before the log start, the group's committed position (OffsetFetch answered ok or "
        "with error 16)}; buffer grid: initial {64 KiB, 1 MiB, 1 MiB+1, 2 MiB} x "
        "max {None, =initial, 16x, one byte too small, exact, +7} x message size {initial-100, initial+1, 1 MiB+1, "
        "3 MiB(, 5 MiB)}.  Oracle (observed at the consumer->client seam, the clock and the wire): the retry timer "
        "after k consecutive failures is min(init x 1.20205^(k-1), max) and k resets after a success; with limit L no "
        "request is issued after L consecutive failures, with L=0 start() never fails on a retriable error and "
        "delivery completes once faults cease; out-of-range fails start() iff the policy is None, otherwise the next "
        "fetch is at the resolved earliest/latest offset; fetch sizes follow x16 up to 1 MiB then x2, capped at the "
        "maximum; start() fails with ConsumerFetchSizeTooSmall only if the maximum is smaller than the message; the big "
        "message is delivered, never skipped.  shutdown-then-restart: the same words after a graceful shutdown (final "
        "commit accepted, rejected twice or unanswered twice) followed by start() on the same Consumer, limit {0, 3}.")
ASSUME = ["SimCluster cuts fetch answers at max_bytes", "1 broker, 3-message log"]


def run(tier, seed, only=None):
    if tier == "quick":
        plans = [("retry-words-3", word_configs(tier), (3, 0, 3)),
                 ("buffer-grid", buffer_configs(tier), (0, 0, 0)),
                 ("shutdown-then-restart", restart_configs(tier), (3, 0, 3))]
    else:
        plans = [("retry-words-5", word_configs(tier), (5, 0, 5)),
                 ("buffer-grid-1fault", buffer_configs(tier), (1, 0, 1)),
                 ("shutdown-then-restart", restart_configs(tier), (5, 0, 5))]
    if only:
        plans = [p for p in plans if p[0] in only]
    return _dfs.run_plans(PROPERTY, SPEC, plans, seed, RULE, ASSUME, max_steps=300)
