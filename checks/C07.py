"""C07 -- requests reach the responsible broker; results return in payload order.

Deviation-bounded stateless DFS over the real KafkaClient driven through its
public API on virtual clusters of 1-3 brokers: every leader map of 4 partitions
(up to broker renaming, plus leaderless variants), every ordering of every
payload subset, every subset of failing brokers, every cross-broker reply order.
"""
import itertools

from checks import _dfs

PROPERTY = "C07"
SPEC = "harness.client:ApiWorld"
replay = _dfs.replay

PARTS = [("t", 0), ("t", 1), ("u", 0), ("u", 1)]
MENU = {"refuse": True, "drop": True, "silent": True, "err": {"0": [6, 7], "1": [6], "2": [6], "8": [16], "9": [16]},
        "reorder": True, "timer_early": True, "err_per_partition": True}
MENU_AGN = {"refuse": True, "drop": True, "silent": True, "err": {"3": [5]}, "reorder": True, "dnsfail": True}


def layouts():
    """Every assignment of 4 partitions to <= 3 brokers up to renaming (restricted growth strings)."""
    out = []
    for a in itertools.product(range(3), repeat=4):
        mx = -1
        ok = True
        for x in a:
            if x > mx + 1:
                ok = False
                break
            mx = max(mx, x)
        if ok:
            out.append(a)
    return out


def cluster_for(assign, leaderless=None, coordinator=None):
    nb = max(assign) + 1
    topics = {}
    for (t, p), bidx in zip(PARTS, assign):
        ld = bidx + 1
        if leaderless == (t, p):
            ld = -1
        topics.setdefault(t, {})[str(p)] = ld
    c = {"brokers": list(range(1, nb + 1)), "topics": topics}
    c["coordinator"] = coordinator or nb
    return c


def payload(api, keys):
    if api == "produce":
        return [[t, p, ["v-%s-%d" % (t, p)]] for t, p in keys]
    if api == "fetch":
        return [[t, p, 0, 1000] for t, p in keys]
    if api == "offsets":
        return [[t, p, -1] for t, p in keys]
    if api == "offset_fetch":
        return [[t, p] for t, p in keys]
    return [[t, p, 7] for t, p in keys]


def configs(tier, apis, sizes, menu):
    out = []
    for assign in layouts():
        for api in apis:
            for n in sizes:
                for keys in itertools.permutations(PARTS, n):
                    out.append({"cluster": cluster_for(assign), "discovery": False, "timeout_ms": 2000,
                                "script": [["call", api, payload(api, keys), {"foe": False}]], "menu": menu})
    return out


def acks0_configs():
    """Produce without acknowledgements: nothing comes back, so only connection-level failures tell the payloads
    of an unreachable broker from those that were handed over."""
    out = []
    for assign in layouts():
        if max(assign) == 0:
            continue
        for keys in ([PARTS[0], PARTS[1], PARTS[2]], [PARTS[3], PARTS[0]], list(PARTS)):
            out.append({"cluster": cluster_for(assign), "discovery": False, "timeout_ms": 2000,
                        "script": [["call", "produce", payload("produce", keys), {"foe": False, "acks": 0}],
                                   ["call", "produce", payload("produce", keys[::-1]), {"foe": True, "acks": 0}]],
                        "menu": {"refuse": True, "hang": True, "drop": True, "timer_early": True, "reorder": True},
                        "expect_failure": True})
    return out


def leaderless_configs():
    out = []
    for assign in [(0, 1, 0, 1), (0, 0, 1, 2)]:
        for lost in PARTS[:2]:
            for keys in itertools.permutations(PARTS, 2):
                out.append({"cluster": cluster_for(assign, leaderless=lost), "discovery": False, "timeout_ms": 2000,
                            "expect_failure": True,
                            "script": [["call", "produce", payload("produce", keys), {"foe": False}]],
                            "menu": {"reorder": True}})
    return out


def idle_drop_configs():
    """A warmed-up, connected client whose connection to a broker is lost while idle (broker restart); the next
    call must still reach that broker."""
    out = []
    for assign in [(0, 1, 0, 1), (0, 0, 1, 2), (0, 0, 0, 0)]:
        cl = cluster_for(assign)
        for victim in cl["brokers"]:
            for api in ("produce", "fetch", "offset_commit"):
                keys = PARTS[:3]
                out.append({"cluster": cl, "discovery": False, "timeout_ms": 2000, "warm": [["t", "u"], ["g"]],
                            "warm_connect": True,
                            "script": [["cluster", "drop_conns", victim],
                                       ["call", api, payload(api, keys), {"foe": False}],
                                       ["call", api, payload(api, keys[::-1]), {"foe": False}]],
                            "menu": {"reorder": True}})
    return out


def return_configs():
    """A broker disappears from the cluster (a full refresh no longer lists it), later comes back under the same
    node id and leads its partitions again: calls must reach it on a new connection."""
    out = []
    for assign in [(0, 1, 2, 2), (0, 1, 0, 2), (0, 0, 1, 1)]:
        cl = cluster_for(assign)
        for victim in cl["brokers"]:
            for api in ("produce", "fetch"):
                keys = list(PARTS)
                out.append({"cluster": cl, "discovery": False, "timeout_ms": 2000, "warm": [["t", "u"], []],
                            "warm_connect": True,
                            "script": [["cluster", "down", victim], ["call", "metadata", []],
                                       ["cluster", "up", victim], ["call", "metadata", []],
                                       ["call", api, payload(api, keys), {"foe": False}],
                                       ["call", api, payload(api, keys[::-1]), {"foe": False}]],
                            "menu": {"reorder": True, "timer_early": True}})
    return out


def superseded_configs():
    """A refresh answers "topic unavailable, no partitions" (topic being re-created); the leaders cached before are
    superseded: the next call has to look the topic up again before sending."""
    out = []
    for assign in [(0, 1, 0, 1), (0, 0, 1, 2)]:
        cl = cluster_for(assign)
        for err, api in itertools.product((3, 5), ("produce", "fetch")):
            keys = [PARTS[0], PARTS[2]]
            out.append({"cluster": cl, "discovery": False, "timeout_ms": 2000, "warm": [["t", "u"], []],
                        "warm_connect": True,
                        "script": [["cluster", "topic_error", "t", err], ["call", "metadata", ["t"]],
                                   ["cluster", "topic_error", "t", None],
                                   ["cluster", "move", "t", 0, 2 if assign[0] == 0 else 1],
                                   ["call", api, payload(api, keys), {"foe": False}]],
                        "menu": {"reorder": True}})
    return out


def agnostic_configs():
    """Broker-agnostic requests with every subset of brokers unreachable / silent, cold and warmed-up client."""
    out = []
    for nb in (1, 2, 3):
        cluster = {"brokers": list(range(1, nb + 1)), "topics": {"t": {"0": 1}}}
        for down in itertools.chain.from_iterable(itertools.combinations(range(1, nb + 1), k)
                                                  for k in range(0, nb + 1)):
            for warm in (False, True):
                for rot in range(nb):
                    script = [["call", "metadata", ["t"]]]
                    pre = [["cluster", "down", b_] for b_ in down]
                    cfg = {"cluster": cluster, "discovery": False, "timeout_ms": 2000, "script": pre + script,
                           "menu": MENU_AGN, "shuffle": [rot, rot], "expect_failure": bool(down)}
                    if warm:
                        cfg["warm"] = [["t"], []]
                        cfg["warm_connect"] = True
                    out.append(cfg)
    # the application retries a failed broker-agnostic call from inside its errback: the retry is a call of its
    # own and has to walk over the brokers and bootstrap hosts again
    for nb in (1, 2):
        cluster = {"brokers": list(range(1, nb + 1)), "topics": {"t": {"0": 1}}}
        for api, arg in (("coordinator", "g9"), ("metadata", ["t"])):
            for warm in (False, True):
                cfg = {"cluster": cluster, "discovery": False, "timeout_ms": 2000,
                       "script": [["cluster", "down", b_] for b_ in range(1, nb + 1)] +
                                 [["call", api, arg, {"again_on_failure": 1}]],
                       "menu": {"reorder": True}, "expect_failure": True}
                if warm:
                    cfg["warm"] = [["t"], []]
                    cfg["warm_connect"] = True
                out.append(cfg)
    # partially connected client: the request must go to a connected broker first, whatever the shuffle says
    cluster = {"brokers": [1, 2, 3], "topics": {"t": {"0": 1, "1": 2, "2": 3}}}
    for connected in ([1], [2], [3], [1, 2], [2, 3], [1, 3]):
        for rot in range(3):
            out.append({"cluster": cluster, "discovery": False, "timeout_ms": 2000,
                        "script": [["call", "metadata", ["t"]], ["call", "metadata", []]], "menu": MENU_AGN,
                        "shuffle": [rot, rot, rot], "warm": [["t"], []], "warm_connect": connected})
    return out


RULE = ("real KafkaClient; clusters: every map of partitions t/0,t/1,u/0,u/1 onto <=3 brokers up to renaming (14 maps), "
        "leaderless variants, coordinator on the last broker; calls: produce/fetch (all maps, every ordering of every "
        "payload subset of size 1-3) and list-offsets/offset-fetch/offset-commit (size 2); deviations: per broker refuse/"
        "drop/silent/error/name-resolution failure (so every subset of failing brokers within the fault bound), replies in any cross-broker "
        "order, timers overtaking I/O; a connection lost while idle; a broker leaving the cluster and returning under "
        "the same node id between full refreshes; broker-agnostic metadata calls with every subset of brokers down, cold and "
        "warmed-up, every rotation of the shuffle seam.  Oracle: each payload is written to the leader named by the "
        "latest metadata answer delivered to the client (coordinator for group requests), one request per broker per "
        "call, no foreign payloads; success returns one response per payload in payload order; FailedPayloadsError's "
        "responses + failed_payloads partition the input exactly once each, responses in payload order; with acks=0 "
        "success means every payload was written to a connection and failed_payloads are exactly the unwritten ones; a "
        "KafkaUnavailableError is preceded by an attempt on every known broker (connected ones first) and every "
        "bootstrap host.")
ASSUME = ["SimCluster is Kafka", "<= 3 brokers, 4 partitions; bounds in the notes"]


def run(tier, seed, only=None):
    if tier == "quick":
        plans = [("produce-fetch-1dev", configs(tier, ["produce", "fetch"], (1, 2, 3), MENU), (1, 1, 1)),
                 ("offsets-group-2dev", configs(tier, ["offsets", "offset_fetch", "offset_commit"], (2,), MENU)[::2],
                  (1, 1, 2)),
                 ("produce-2faults", configs(tier, ["produce"], (3,), MENU)[::5], (2, 0, 2)),
                 ("produce-acks0", acks0_configs(), (1, 1, 2)),
                 ("leaderless", leaderless_configs(), (0, 1, 1)),
                 ("idle-drop-then-call", idle_drop_configs(), (0, 1, 1)),
                 ("broker-leaves-and-returns", return_configs(), (0, 1, 1)),
                 ("superseded-metadata", superseded_configs(), (0, 1, 1)),
                 ("broker-agnostic", agnostic_configs(), (1, 1, 1))]
    else:
        plans = [("produce-fetch-2dev", configs(tier, ["produce", "fetch"], (1, 2, 3), MENU), (2, 1, 2)),
                 ("offsets-group-2dev", configs(tier, ["offsets", "offset_fetch", "offset_commit"], (2, 3), MENU),
                  (2, 1, 2)),
                 ("produce-3faults", configs(tier, ["produce"], (3, 4), MENU)[::3], (3, 0, 3)),
                 ("produce-acks0", acks0_configs(), (2, 1, 3)),
                 ("leaderless", leaderless_configs(), (1, 1, 2)),
                 ("idle-drop-then-call", idle_drop_configs(), (1, 1, 2)),
                 ("broker-leaves-and-returns", return_configs(), (1, 1, 2)),
                 ("superseded-metadata", superseded_configs(), (1, 1, 2)),
                 ("broker-agnostic", agnostic_configs(), (2, 1, 2))]
    if only:
        plans = [p for p in plans if p[0] in only]
    return _dfs.run_plans(PROPERTY, SPEC, plans, seed, RULE, ASSUME, max_steps=300)
