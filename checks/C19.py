"""C19 -- batching thresholds, time limit and cancellation behave as documented.

Explicit-state BFS over the real Producer + KafkaClient (warmed up) with an
alphabet of sends of several sizes, cancels, timer ticks, produce replies
(ok / error) and stop (harness/producer.py: BatchWorld).
"""
import itertools

from checks import _bc
from mc import explore
from mc.runner import Report

PROPERTY = "C19"
SPEC = "harness.producer:BatchWorld"
replay = _bc.replay

CLUSTER = {"brokers": [1], "topics": {"t": {"0": 1}}}
SIZES = ["1", "12", "1+6", "N"]

RULE = ("alphabet: send of 1 byte / 12 bytes / two messages (1+6 bytes) / a null message, cancel of the oldest or "
        "newest pending send, timer (batch time limit tick, request timeout, retry timer), produce reply ok / error 7, "
        "connection accept, stop(); every enabled event in every state up to the depth bound (BFS, states = distinct "
        "fingerprints of the producer + monitor).  Configurations: batch_every_n {0,2,3} x batch_every_b {0,10} x "
        "batch_every_t {0,5}, the unbatched producer, identical records sent repeatedly, version discovery enabled (the first batch waits for ApiVersions), and two acks=0 configurations (a batch resolves inside the dispatch).  Oracle (reference model recomputed from scratch each step: "
        "queue of accepted-undispatched-uncancelled sends, in-flight = client call or retry timer pending): a dispatch "
        "happens only when a threshold is met or the time limit ticks, takes the whole queue, and must happen in the "
        "step in which nothing is in flight and a threshold is met (including the step the previous batch resolves) "
        "or the tick arrives; a send cancelled before dispatch never reaches the client and leaves the accounting; "
        "cancel fails only its caller, with a cancellation error; stop() fails every outstanding send with a "
        "cancellation error in that step and nothing is dispatched or written afterwards.")
ASSUME = ["<= 4 sends, <= 2 cancels per history; 1 broker, 1 partition; warmed-up client (metadata cached)"]


def configs():
    out = []
    for n, b, t in itertools.product([0, 2, 3], [0, 10], [0, 5]):
        if n == 0 and b == 0 and t == 0:
            continue
        out.append({"batch_every_n": n, "batch_every_b": b, "batch_every_t": t})
    out.append({"unbatched": True})
    # no acknowledgements: a batch can resolve synchronously inside the dispatch
    out.append({"batch_every_n": 1, "batch_every_b": 0, "batch_every_t": 0, "acks": 0})
    out.append({"batch_every_n": 2, "batch_every_b": 0, "batch_every_t": 5, "acks": 0})
    return out


def run(tier, seed, only=None):
    rep = Report(PROPERTY, "model_checking")
    core = [{"batch_every_n": 3, "batch_every_b": 0, "batch_every_t": 5},
            {"batch_every_n": 2, "batch_every_b": 10, "batch_every_t": 0},
            {"batch_every_n": 0, "batch_every_b": 10, "batch_every_t": 5}]
    d_core, d_rest = (6, 5) if tier == "quick" else (7, 6)
    for prod in configs():
        depth = d_core if prod in core else d_rest
        cfg = {"prop": PROPERTY, "cluster": CLUSTER, "discovery": False, "producer": prod,
               "menu": {"err": {"0": [7]}}, "sizes": SIZES, "max_sends": 4, "max_cancels": 2, "timeout_ms": 2000}
        st = explore.bfs(SPEC, cfg, depth, seed=seed)
        name = "n%s-b%s-t%s" % (prod.get("batch_every_n", "u"), prod.get("batch_every_b", "u"),
                                prod.get("batch_every_t", "u"))
        rep.add_stats(name, st)
        rep.notes.append("%s: BFS depth %d, %d states" % (name, st.max_len, st.nodes))
    # identical records sent repeatedly (same topic, key and payload): cancelling one must not touch the others
    for prod in ({"batch_every_n": 3, "batch_every_b": 0, "batch_every_t": 5},
                 {"batch_every_n": 0, "batch_every_b": 0, "batch_every_t": 5}):
        cfg = {"prop": PROPERTY, "cluster": CLUSTER, "discovery": False, "producer": prod, "same_content": True,
               "menu": {}, "sizes": ["12"], "max_sends": 3, "max_cancels": 2, "timeout_ms": 2000}
        st = explore.bfs(SPEC, cfg, 6 if tier == "quick" else 7, seed=seed)
        name = "identical-records-n%s-t%s" % (prod["batch_every_n"], prod["batch_every_t"])
        rep.add_stats(name, st)
        rep.notes.append("%s: BFS depth %d, %d states" % (name, st.max_len, st.nodes))
    # version discovery enabled: the first batch waits for the ApiVersions exchange inside the client; stop() (and
    # cancel) can land during that wait
    for prod in ({"unbatched": True}, {"batch_every_n": 2, "batch_every_b": 0, "batch_every_t": 5}):
        cfg = {"prop": PROPERTY, "cluster": CLUSTER, "discovery": True, "producer": prod,
               "menu": {"err": {"18": [35]}}, "sizes": ["12"], "max_sends": 3, "max_cancels": 1, "timeout_ms": 2000}
        st = explore.bfs(SPEC, cfg, 6 if tier == "quick" else 7, seed=seed)
        name = "discovery-n%s" % prod.get("batch_every_n", "u")
        rep.add_stats(name, st)
        rep.notes.append("%s: BFS depth %d, %d states" % (name, st.max_len, st.nodes))
    rep.coverage["rule"] = RULE
    from mc import scan
    rep.assumptions = list(ASSUME) + [scan.audit()[1]]
    return rep
