"""C04 -- every request on the wire conforms to the Kafka protocol grammar.

Part "encoders": bounded-exhaustive enumeration of request shapes through
afkak's encoders, strictly parsed by the independent reference codec and
compared with the values supplied.
Part "negotiation": state exploration of the real KafkaClient (+ Producer /
fetch calls) against brokers advertising every version table of a small
family, and against legacy brokers (see harness/client.py) -- added by
checks.C04_neg when the client harness is available.
"""
import itertools

from mc import enum
from mc.explore import _digest
from mc.runner import Report
from ref import refkafka as rk

PROPERTY = "C04"

I16 = [-2 ** 15, -1, 0, 1, 2 ** 15 - 1]
I32 = [-2 ** 31, -1, 0, 1, 2 ** 31 - 1]
I64 = [-2 ** 63, -1, 0, 1, 2 ** 63 - 1]
CLIENT_IDS = [b"", b"c", "clïent-é".encode("utf-8"), b"x" * 32767]
CORRS = [0, 1, 2 ** 31 - 1]
TOPICS = ["t", "a.b_c-d", "T" * 249]
GROUPS_ASCII = ["g", "my.group-1", "G" * 300]
TEXTS = ["", "g", "grüppe-€", "M" * 300]
VALUES = [None, b"", b"v", b"V" * 70000]
KEYS = [None, b"", b"k"]


class Rejected(Exception):
    pass


def _hdr_cases():
    """(client_id, correlation id) pairs: full product is small."""
    return list(itertools.product(CLIENT_IDS, CORRS))


def _check_header(parsed, api, version, cid, corr):
    if parsed["api_key"] != api:
        return "api key %r != %r" % (parsed["api_key"], api)
    if parsed["api_version"] != version:
        return "api version %r != %r" % (parsed["api_version"], version)
    if parsed["correlation_id"] != corr:
        return "correlation id %r != %r" % (parsed["correlation_id"], corr)
    if parsed["client_id"] != cid:
        return "client id %r != %r" % (parsed["client_id"][:40], cid[:40])
    return None


def _topic_map(body, fields, what):
    """{(topic, partition): tuple(fields)}; raises on duplicates (one entry per partition per request)."""
    out = {}
    topics_seen = set()
    for t in body["topics"]:
        if t["topic"] in topics_seen:
            raise ValueError("topic %r appears twice in %s" % (t["topic"], what))
        topics_seen.add(t["topic"])
        for p in t["partitions"]:
            k = (t["topic"], p["partition"])
            if k in out:
                raise ValueError("partition %r appears twice in %s" % (k, what))
            out[k] = tuple(p[f] for f in fields)
    return out


def _payload_lists(mk, keys_small):
    """Payload lists: every ordering of every subset (size 0..3) of distinct (topic, partition) keys."""
    out = [[]]
    for n in (1, 2, 3):
        for sub in itertools.permutations(keys_small, n):
            out.append([mk(t, p, i) for i, (t, p) in enumerate(sub)])
    return out


TP_SMALL = [("t", 0), ("t", 1), ("u", 0), ("a.b_c-d", 7)]


# ---------------------------------------------------------------------------
def produce_unit(u):
    from afkak.common import ProduceRequest, SendRequest
    from afkak.kafkacodec import KafkaCodec as K, create_message_set
    st = enum.EnumStats()
    version = u["version"]
    magic = 1 if version >= 2 else 0
    sigs = set()

    def bad(sig, msg, case):
        if sig not in sigs:
            sigs.add(sig)
            st.violations.append({"oracle": "request-grammar", "signature": sig, "message": msg + " -- case " +
                                  repr(case)[:700], "input": {"unit": u}, "check": "checks.C04"})

    def msgset(vals, key, codec):
        reqs = [SendRequest("x", key, list(vals), None)]
        return create_message_set(reqs, codec, magic=magic) if magic else create_message_set(reqs, codec)

    # (a) shapes: payload lists x codec, small messages
    shapes = []
    for codec in (0, 1, 2):
        for plist in _payload_lists(lambda t, p, i: (t, p, [(b"m%d" % i), None][: 1 + i % 2], KEYS[i % 3]), TP_SMALL):
            shapes.append((codec, plist, 1, 1000))
    # (b) message domains: one payload, 0..2 messages over the full key/value domain, every codec
    for codec in (0, 1, 2):
        for n in (1, 2):
            for vals in itertools.product(VALUES, repeat=n):
                if sum(1 for v in vals if v and len(v) > 1000) > 1:
                    continue
                for key in KEYS:
                    shapes.append((codec, [("t", 0, list(vals), key)], 1, 1000))
    # (c) acks / timeout / partition / topic boundaries
    for acks in I16:
        for timeout in I32:
            shapes.append((0, [("t", 0, [b"v"], None)], acks, timeout))
    for part in I32:
        for topic in TOPICS:
            shapes.append((0, [(topic, part, [b"v"], b"k")], -1, 1))
    hdrs = _hdr_cases()
    for i, (codec, plist, acks, timeout) in enumerate(shapes):
        for cid, corr in (hdrs if i % 40 == 0 else hdrs[4:5]):
            st.evaluations += 1
            case = {"version": version, "codec": codec, "payloads": [(t, p, [None if v is None else len(v) for v in
                                                                             vals], k) for t, p, vals, k in plist],
                    "acks": acks, "timeout": timeout, "corr": corr}
            try:
                payloads = [ProduceRequest(t, p, msgset(vals, k, codec)) for t, p, vals, k in plist]
                data = K.encode_produce_request(cid, corr, payloads, acks=acks, timeout=timeout, api_version=version)
            except Exception:
                st.rejected += 1
                continue
            try:
                parsed = rk.parse_request(data)
                err = _check_header(parsed, rk.PRODUCE, version, cid, corr)
                body = parsed["body"]
                if not err and (body["acks"], body["timeout"]) != (acks, timeout):
                    err = "acks/timeout %r != %r" % ((body["acks"], body["timeout"]), (acks, timeout))
                if not err:
                    got = _topic_map(body, ("records",), "produce request")
                    want = {(t, p): (vals, k) for t, p, vals, k in plist}
                    if set(got) != set(want):
                        err = "partitions on the wire %r, supplied %r" % (sorted(got), sorted(want))
                    else:
                        for tp, (recs,) in got.items():
                            vals, k = want[tp]
                            leaves = rk.flatten(recs, absolute=False)
                            if [(m["key"], m["value"]) for m in leaves] != [(k, v) for v in vals]:
                                err = "messages for %r: %r, supplied key %r values %r" % (
                                    tp, [(m["key"], (m["value"] or b"")[:10]) for m in leaves], k,
                                    [(v or b"")[:10] for v in vals])
                                break
                            if any(m["magic"] != magic for m in leaves) or any(m["magic"] != magic for m in recs):
                                err = "message magic %r in Produce v%d" % ([m["magic"] for m in recs], version)
                                break
                            if codec == 0:
                                if any(m["attributes"] & 7 for m in recs):
                                    err = "uncompressed send carries codec bits"
                                    break
                            else:
                                if len(recs) != 1 or (recs[0]["attributes"] & 7) != codec or any(
                                        m["attributes"] & 7 for m in leaves):
                                    err = "codec %d send has attributes %r / inner %r" % (
                                        codec, [m["attributes"] for m in recs], [m["attributes"] for m in leaves])
                                    break
            except (rk.ParseError, ValueError) as e:
                err = "reference parser rejects the request: %s" % e
            if err:
                bad("C04:Produce-v%d:%s" % (version, err.split(":")[0].split(" %")[0][:60]), err, case)
            st.classes.add(_digest(("produce", version, codec, len(plist), [len(x[2]) for x in plist],
                                    acks in (0, 1, -1), i % 40 == 0)))
        if i == 5 and not st.samples:
            st.samples.append(case)
    # (d) caller-built messages: every field of a Message the caller hands over, the timestamp included, is a
    # "field value the caller supplied" (timestamp domain with the falsy boundary 0 and the no-timestamp marker -1)
    from afkak.common import Message
    if magic == 1:
        for att in (0, 0x08):
            for key in KEYS:
                for val in (None, b"", b"v"):
                    for tss in itertools.product((0, -1, 1, 7, (1 << 62) + 1), repeat=2):
                        st.evaluations += 1
                        case = {"version": version, "explicit_messages": [(att, key, val, ts) for ts in tss]}
                        try:
                            msgs = [Message(1, att, key, val, timestamp=ts) for ts in tss]
                            data = K.encode_produce_request(b"c", 5, [ProduceRequest("t", 0, msgs)], acks=1,
                                                            timeout=1000, api_version=version)
                        except Exception:
                            st.rejected += 1
                            continue
                        try:
                            body = rk.parse_request(data)["body"]
                            (recs,) = _topic_map(body, ("records",), "produce request")[("t", 0)]
                            got = [(m["magic"], m["attributes"], m["key"], m["value"], m["timestamp"]) for m in recs]
                            want = [(1, att, key, val, ts) for ts in tss]
                            err = None if got == want else "caller-built message fields changed: on the wire %r, supplied %r" % (got, want)
                        except (rk.ParseError, ValueError, KeyError) as e:
                            err = "reference parser rejects the request: %s" % e
                        if err:
                            bad("C04:Produce-v%d:%s" % (version, err.split(":")[0].split(" %")[0][:60]), err, case)
                        st.classes.add(_digest(("produce-explicit", version, att, key is None, val is None,
                                                tuple(t == 0 for t in tss))))
    return st


def simple_unit(u):
    """All other request encoders."""
    from afkak import common as C
    from afkak.kafkacodec import KafkaCodec as K
    st = enum.EnumStats()
    sigs = set()
    kind = u["kind"]
    hdrs = _hdr_cases()

    def bad(api, version, err, case):
        sig = "C04:%s-v%d:%s" % (rk.API_NAMES[api], version, err.split(":")[0].split(" %")[0][:60])
        if sig not in sigs:
            sigs.add(sig)
            st.violations.append({"oracle": "request-grammar", "signature": sig,
                                  "message": err + " -- case " + repr(case)[:700],
                                  "input": {"unit": u}, "check": "checks.C04"})

    def run(api, version, cases, encode, expect):
        """cases: iterable of case objects; encode(case, cid, corr) -> bytes; expect(case) -> body-comparable;
        comparison is done by `expect` returning (got_extractor, want)."""
        for i, case in enumerate(cases):
            for cid, corr in (hdrs if i % 25 == 0 else hdrs[4:5]):
                st.evaluations += 1
                try:
                    data = encode(case, cid, corr)
                except Exception:
                    st.rejected += 1
                    continue
                try:
                    parsed = rk.parse_request(data)
                    err = _check_header(parsed, api, version, cid, corr)
                    if not err:
                        got, want = expect(case, parsed["body"])
                        if got != want:
                            err = "fields on the wire %r, supplied %r" % (got, want)
                except (rk.ParseError, ValueError) as e:
                    err = "reference parser rejects the request: %s" % e
                if err:
                    bad(api, version, err, case)
                st.classes.add(_digest((kind, _shape(case))))
            if i == 2 and not st.samples:
                st.samples.append({"api": rk.API_NAMES[api], "version": version, "case": repr(case)[:300]})

    if kind.startswith("fetch"):
        version = int(kind[-1])
        cases = []
        for plist in _payload_lists(lambda t, p, i: (t, p, I64[i % 5], I32[(i + 2) % 5]), TP_SMALL):
            cases.append((plist, 100, 4096))
        for off in I64:
            for mb in I32:
                for part in I32:
                    cases.append(([("t", part, off, mb)], 0, 0))
        for mw in I32:
            for minb in I32:
                cases.append(([(TOPICS[2], 0, 0, 1)], mw, minb))
        run(rk.FETCH, version, cases,
            lambda c, cid, corr: K.encode_fetch_request(cid, corr, [C.FetchRequest(*p) for p in c[0]],
                                                        max_wait_time=c[1], min_bytes=c[2], api_version=version),
            lambda c, b: ((b["replica_id"], b["max_wait"], b["min_bytes"],
                           _topic_map(b, ("offset", "max_bytes"), "fetch request")),
                          (-1, c[1], c[2], {(t, p): (o, m) for t, p, o, m in c[0]})))
    elif kind == "offsets":
        cases = _payload_lists(lambda t, p, i: (t, p, I64[i % 5], I32[(i + 1) % 5]), TP_SMALL)
        cases += [[("t", part, ts, n)] for part in I32 for ts in I64 + [-2] for n in I32]
        run(rk.LIST_OFFSETS, 0, cases,
            lambda c, cid, corr: K.encode_offset_request(cid, corr, [C.OffsetRequest(*p) for p in c]),
            lambda c, b: ((b["replica_id"], _topic_map(b, ("timestamp", "max_num_offsets"), "offset request")),
                          (-1, {(t, p): (ts, n) for t, p, ts, n in c})))
    elif kind == "metadata":
        cases = [[]]
        for n in (1, 2, 3):
            cases += [list(x) for x in itertools.permutations(TOPICS + ["u"], n)]
        run(rk.METADATA, 0, cases,
            lambda c, cid, corr: K.encode_metadata_request(cid, corr, c),
            lambda c, b: (b["topics"], list(c)))
    elif kind == "coordinator":
        run(rk.FIND_COORDINATOR, 0, GROUPS_ASCII + TEXTS,
            lambda c, cid, corr: K.encode_consumermetadata_request(cid, corr, c),
            lambda c, b: (b["group"], c))
    elif kind == "commit":
        mds = [None, b"", b"md", "mé".encode("utf-8"), b"z" * 300]
        cases = []
        for plist in _payload_lists(lambda t, p, i: (t, p, I64[(i + 2) % 5], I64[i % 5], mds[i % 5]), TP_SMALL):
            cases.append(("g", 3, "member-1", plist))
        for off in I64:
            for ts in I64:
                for md in mds:
                    cases.append(("g", -1, "", [("t", 0, off, ts, md)]))
        for g in GROUPS_ASCII + TEXTS:
            for gen in I32:
                for member in ["", "m-1", "ü", "M" * 300]:
                    cases.append((g, gen, member, [("t", 1, 5, -1, None)]))
        run(rk.OFFSET_COMMIT, 1, cases,
            lambda c, cid, corr: K.encode_offset_commit_request(
                cid, corr, c[0], c[1], c[2], [C.OffsetCommitRequest(*p) for p in c[3]]),
            lambda c, b: ((b["group"], b["generation"], b["member"],
                           {k: (o, ts, None if md is None else md.encode("utf-8"))
                            for k, (o, ts, md) in _topic_map(b, ("offset", "timestamp", "metadata"),
                                                              "commit request").items()}),
                          (c[0], c[1], c[2], {(t, p): (o, ts, md) for t, p, o, ts, md in c[3]})))
    elif kind == "offsetfetch":
        cases = []
        for plist in _payload_lists(lambda t, p, i: (t, p), TP_SMALL):
            for g in GROUPS_ASCII[:2]:
                cases.append((g, plist))
        for g in GROUPS_ASCII + TEXTS:
            for part in I32:
                cases.append((g, [(TOPICS[2], part)]))
        run(rk.OFFSET_FETCH, 1, cases,
            lambda c, cid, corr: K.encode_offset_fetch_request(cid, corr, c[0], [C.OffsetFetchRequest(*p) for p in
                                                                                 c[1]]),
            lambda c, b: ((b["group"], sorted(_topic_map(b, (), "offset fetch request"))),
                          (c[0], sorted((t, p) for t, p in c[1]))))
    elif kind == "join":
        metas = [b"", b"\x00\x01", b"m" * 70000]
        cases = []
        for g, member, ptype in itertools.product(TEXTS, TEXTS, ["consumer", "", "prötocol"]):
            for st_ in I32:
                cases.append((g, st_, member, ptype, [("consumer", metas[1])]))
        for n in (0, 1, 2):
            for protos in itertools.product(itertools.product(["consumer", "range", "p" * 300], metas), repeat=n):
                cases.append(("g", 30000, "m", "consumer", list(protos)))
        run(rk.JOIN_GROUP, 0, cases,
            lambda c, cid, corr: K.encode_join_group_request(cid, corr, C._JoinGroupRequest(
                c[0], c[1], c[2], c[3], [C._JoinGroupRequestProtocol(n, m) for n, m in c[4]])),
            lambda c, b: ((b["group"], b["session_timeout"], b["member"], b["protocol_type"],
                           [(p["name"], p["metadata"]) for p in b["protocols"]]),
                          (c[0], c[1], c[2], c[3], list(c[4]))))
    elif kind == "sync":
        blobs = [b"", b"\x00", b"a" * 70000]
        cases = []
        for g, member in itertools.product(TEXTS, TEXTS):
            for gen in I32:
                cases.append((g, gen, member, []))
        for n in (1, 2, 3):
            for asg in itertools.product(itertools.product(TEXTS[1:], blobs), repeat=n):
                cases.append(("g", 1, "m", list(asg)))
        run(rk.SYNC_GROUP, 0, cases,
            lambda c, cid, corr: K.encode_sync_group_request(cid, corr, C._SyncGroupRequest(
                c[0], c[1], c[2], [C._SyncGroupRequestMember(m, a) for m, a in c[3]])),
            lambda c, b: ((b["group"], b["generation"], b["member"],
                           [(a["member"], a["assignment"]) for a in b["assignments"]]),
                          (c[0], c[1], c[2], list(c[3]))))
    elif kind == "heartbeat":
        cases = [(g, gen, m) for g in TEXTS for gen in I32 for m in TEXTS]
        run(rk.HEARTBEAT, 0, cases,
            lambda c, cid, corr: K.encode_heartbeat_request(cid, corr, C._HeartbeatRequest(*c)),
            lambda c, b: ((b["group"], b["generation"], b["member"]), c))
    elif kind == "leave":
        cases = [(g, m) for g in TEXTS for m in TEXTS]
        run(rk.LEAVE_GROUP, 0, cases,
            lambda c, cid, corr: K.encode_leave_group_request(cid, corr, C._LeaveGroupRequest(*c)),
            lambda c, b: ((b["group"], b["member"]), c))
    elif kind == "apiversions":
        run(rk.API_VERSIONS, 0, [0],
            lambda c, cid, corr: K.encode_api_versions_request(cid, corr, C.ApiVersionRequest(K.API_VERSIONS_KEY, 0)),
            lambda c, b: (b, {}))
    elif kind == "blobs":
        # embedded consumer protocol
        for ver in (0, 1, 2 ** 15 - 1):
            for n in (0, 1, 2, 3):
                for ts in itertools.permutations(["t", "a.b", "ünï", "T" * 249], n):
                    for ud in (None, b"", b"\x01\x02"):
                        st.evaluations += 1
                        try:
                            data = K.encode_join_group_protocol_metadata(ver, list(ts), ud)
                        except Exception:
                            st.rejected += 1
                            continue
                        try:
                            r = rk.Reader(data)
                            got = rk.SUBSCRIPTION.dec(r)
                            if r.remaining():
                                raise rk.ParseError("trailing bytes")
                            err = None if got == {"version": ver, "topics": list(ts), "user_data": ud} else \
                                "subscription on the wire %r" % (got,)
                        except rk.ParseError as e:
                            err = "reference parser rejects the subscription: %s" % e
                        if err and "sub" not in sigs:
                            sigs.add("sub")
                            st.violations.append({"oracle": "request-grammar", "signature": "C04:subscription-blob",
                                                  "message": "%s (supplied %r %r %r)" % (err, ver, ts, ud),
                                                  "input": {"unit": u}, "check": "checks.C04"})
                        st.classes.add(_digest(("sub", ver, n, ud)))
        plists = [[], [0], [0, 1, 2], [2 ** 31 - 1, -1, 5]]
        for n in (0, 1, 2, 3):
            for ts in itertools.permutations(["t", "a.b", "T" * 249], n):
                for ps in itertools.product(plists, repeat=n):
                    for ud in (None, b"", b"\x01\x02"):
                        st.evaluations += 1
                        asg = {t: p for t, p in zip(ts, ps)}
                        try:
                            data = K.encode_sync_group_member_assignment(0, asg, ud)
                        except Exception:
                            st.rejected += 1
                            continue
                        try:
                            r = rk.Reader(data)
                            got = rk.ASSIGNMENT.dec(r)
                            if r.remaining():
                                raise rk.ParseError("trailing bytes")
                            want = {"version": 0, "topics": [{"topic": t, "partitions": list(p)}
                                                              for t, p in zip(ts, ps)], "user_data": ud}
                            err = None if got == want else "assignment on the wire %r, supplied %r" % (got, want)
                        except rk.ParseError as e:
                            err = "reference parser rejects the assignment: %s" % e
                        if err and "asg" not in sigs:
                            sigs.add("asg")
                            st.violations.append({"oracle": "request-grammar", "signature": "C04:assignment-blob",
                                                  "message": err, "input": {"unit": u}, "check": "checks.C04"})
                        st.classes.add(_digest(("asg", n, [len(p) for p in ps], ud)))
    else:
        raise AssertionError(kind)
    return st


def _shape(v):
    if isinstance(v, bool) or v is None:
        return v
    if isinstance(v, int):
        return v if -3 <= v <= 10 else ("big" if v > 0 else "neg")
    if isinstance(v, (bytes, str)):
        return (type(v).__name__, min(len(v), 3), v[:1] if len(v) < 300 else "L")
    if isinstance(v, (list, tuple)):
        return tuple(_shape(x) for x in v)
    return repr(v)


KINDS = ["fetch0", "fetch2", "offsets", "metadata", "coordinator", "commit", "offsetfetch", "join", "sync",
         "heartbeat", "leave", "apiversions", "blobs"]


def replay(v):
    if v.get("harness") or v["signature"].startswith("C04:neg"):
        from checks import C04_neg
        return C04_neg.replay(v)
    u = v["input"]["unit"]
    st = produce_unit(u) if "version" in u else simple_unit(u)
    return [x for x in st.violations if x["signature"] == v["signature"]]


def run(tier, seed, only=None):
    rep = Report(PROPERTY, "exploration")
    parts = only or ["encoders", "negotiation"]
    if "encoders" in parts:
        st = enum.run_units("checks.C04:produce_unit", [{"version": 0}, {"version": 2}], seed)
        enum.fold(rep, "produce-encoder", st)
        st = enum.run_units("checks.C04:simple_unit", [{"kind": k} for k in KINDS], seed)
        enum.fold(rep, "other-encoders", st)
    if "negotiation" in parts:
        try:
            from checks import C04_neg
        except ImportError:
            C04_neg = None
            rep.notes.append("negotiation part not built in this revision")
        if C04_neg is not None:
            C04_neg.run_into(rep, tier, seed)
    rep.coverage["rule"] = (
        "encoders: for each of the 13 request encoders (Produce v0/v2, Fetch v0/v2, ListOffsets, Metadata, "
        "FindCoordinator, OffsetCommit v1, OffsetFetch v1, JoinGroup, SyncGroup, Heartbeat, LeaveGroup, ApiVersions) "
        "and the two embedded blobs: the product of boundary ints of each field's width, strings {empty, short, "
        "punctuated, non-ASCII where UTF-8, 249/300 chars}, client ids {empty, ascii, UTF-8, 32767 bytes}, "
        "correlation ids {0,1,2^31-1}, bytes {null, empty, 1 byte, 70000 bytes}, every ordering of every subset of "
        "<= 3 distinct topic-partitions, 0..2 messages per payload, all codecs, both magics; caller-built format-1 messages over a timestamp domain incl. 0 and -1.  An encoder that raises "
        "emitted no bytes and is counted as `rejected`.  Distinct non-trivial = distinct value-class shapes.")
    rep.assumptions = ["refkafka's strict parser is the grammar (DESIGN.md Appendix A)",
                       "snappy via a format-conformant shim"]
    return rep
