"""C06 -- each request completes exactly once, with the response bearing its own id.

Explicit-state BFS over the real _KafkaBrokerClient + KafkaProtocol on a virtual
transport (harness/brokerclient.py): every enabled event at every state up to
the depth bound, states de-duplicated by a canonical fingerprint of the object
graph.
"""
from checks import _bc

PROPERTY = "C06"
replay = _bc.replay

RULE = ("alphabet: makeRequest (reply / no-reply, fresh ids), re-use of an in-flight id or of a cancelled id whose reply can still arrive, cancel of any pending "
        "request, broker frames for any id it has seen (in any order, duplicates) and for an unknown id (99), a frame "
        "announcing 2^31 bytes, delivery of the whole buffer or of 1/3/4/6/len-1 bytes (inside the prefix, at its "
        "boundary, inside the body, across frames), accept/refuse of connection attempts, drop, clean close, timers, "
        "disconnect(), close(), and a request whose completion callback calls close() re-entrantly.  Every event enabled in a state is explored; states = distinct fingerprints; a "
        "trace is non-trivial when it reconnects, cancels, closes or sees an impossible length.  Oracle: reference "
        "model of request instances (exactly once; success = exact bytes of an unconsumed frame carrying the id, sent "
        "after the request was written on that connection; failure only by cancel or close; impossible length closes "
        "the transport; no exception escapes into the reactor).  The same alphabet (requests, frames for seen / unknown "
        "ids, chunked delivery, impossible length, loss) is explored on KafkaBootstrapProtocol, the protocol of the "
        "ephemeral bootstrap connection.")
ASSUME = ["<= 3 requests, <= 3 broker frames per connection, depth-bounded histories",
          "VTransport implements the ITransport contract afkak relies on (bytes after loseConnection are dropped; "
          "connectionLost is a separate event)"]


def run(tier, seed, only=None):
    if tier == "quick":
        plans = [("chunked-2req", {"chunks": True, "max_reqs": 2, "max_frames": 3}, 8),
                 ("whole-3req", {"chunks": False, "max_reqs": 3, "max_frames": 3}, 8),
                 ("reentrant-close", {"chunks": False, "max_reqs": 3, "max_frames": 3, "reentrant": True,
                                      "big": False, "noreply": False}, 7)]
    else:
        plans = [("chunked-2req", {"chunks": True, "max_reqs": 2, "max_frames": 3}, 10),
                 ("chunked-3req", {"chunks": True, "max_reqs": 3, "max_frames": 3}, 9),
                 ("whole-3req", {"chunks": False, "max_reqs": 3, "max_frames": 3}, 10),
                 ("reentrant-close", {"chunks": False, "max_reqs": 3, "max_frames": 3, "reentrant": True,
                                      "big": False, "noreply": False}, 9)]
    rep = _bc.run_bfs(PROPERTY, plans, seed, RULE, ASSUME)
    # the ephemeral bootstrap connection's own protocol class
    from mc import explore
    depth = 8 if tier == "quick" else 10
    st = explore.bfs("harness.brokerclient:BootstrapProtocolHarness", {"max_reqs": 3, "max_frames": 4}, depth,
                     seed=seed)
    rep.add_stats("bootstrap-protocol", st)
    rep.notes.append("bootstrap-protocol: BFS depth %d completed (%d distinct states)" % (st.max_len, st.nodes))
    return rep
