"""C13 -- consumer stop and shutdown leave nothing running and report once.

Deviation-bounded stateless DFS over the real Consumer + KafkaClient: stop() /
shutdown() are script operations that the explorer may issue early at every
state (one schedule deviation), on top of runs with at most one (quick) / two
(thorough) faults.
"""
import itertools

from checks import _dfs

PROPERTY = "C13"
SPEC = "harness.consumer:ConsumerWorld"
replay = _dfs.replay

CLUSTER = {"brokers": [1, 2], "topics": {"t": {"0": 1}}, "coordinator": 2}
LOG = [["base", 100], ["p", "k0", "v0"], ["p", "k1", "v1"], ["p", "k2", "v2"], ["p", "k3", "v3"]]
MENU = {"err": {"8": [7, 15, 22], "1": [6]}, "silent": True, "drop": True, "timer_early": True, "proc_early": True,
        "app_early": True}


def configs(tier):
    out = []
    scripts = {
        "stop": [["start"], ["stop", {"delivered": 4}]],
        "stop-restart": [["start"], ["stop", {"delivered": 2}], ["restart", 102]],
        "shutdown": [["start"], ["shutdown", {"delivered": 4}]],
        "commit-shutdown": [["start"], ["commit", {"delivered": 2}], ["shutdown", {"delivered": 3}]],
        "shutdown-stop": [["start"], ["shutdown", {"delivered": 3}], ["stop"]],
        "shutdown-restart": [["start"], ["shutdown", {"delivered": 2}], ["restart", 102, {"stopped": True}]],
    }
    for group, (n, ms), proc, (sname, script) in itertools.product(
            [True, False], [(0, 0), (1, 0), (0, 1000)], ["sync", "async"], sorted(scripts.items())):
        if not group and ((n, ms) != (0, 0) or "commit" in sname):
            continue
        cons = {"buffer_size": 75}
        if group:
            cons.update(auto_commit_every_n=n, auto_commit_every_ms=ms)
        cfg = {"cluster": CLUSTER, "discovery": False, "log": LOG, "magic": 0, "start": "earliest", "group": group,
               "processor": proc, "consumer": cons, "script": script, "menu": MENU, "timeout_ms": 2000,
               "horizon_s": 200}
        if "restart" in sname:
            cfg["check_delivery_after_restart"] = True
        out.append(cfg)
    # stop() from inside the processor
    for k in (0, 1):
        out.append({"cluster": CLUSTER, "discovery": False, "log": LOG, "magic": 0, "start": "earliest",
                    "group": True, "processor": "sync", "stop_inside": k,
                    "consumer": {"buffer_size": 75, "auto_commit_every_n": 1, "auto_commit_every_ms": 0},
                    "script": [["start"]], "menu": MENU, "timeout_ms": 2000, "horizon_s": 200})
    return out


RULE = ("real Consumer (+/- consumer group, auto-commit by count / by time / off) + KafkaClient; 4-message log, "
        "buffer 75 bytes; processor sync / async; scripts: stop, stop then start again, shutdown, commit then shutdown, "
        "shutdown then stop, stop() from inside the processor.  stop()/shutdown()/commit() may be issued early at every "
        "state of the run (resolving offsets, looking up leader/coordinator, fetching, reply parked behind processing, "
        "processing, waiting to retry, commit in flight or in backoff); faults: OffsetCommit error {7,15,22}, fetch "
        "error 6, silent broker (-> client timeout), drop; timers and processor completions may overtake I/O.  Oracle: "
        "after stop() returns no processor invocation, no request handed to the client or reaching a broker, no "
        "consumer timer on the clock; the start Deferred fires exactly once, with last_processed_offset unless an "
        "unrecoverable error occurred; shutdown waits for the processor, commits (group), fires exactly once, and on "
        "success last_committed == last_processed; every shutdown Deferred fires under the fault-free continuation; "
        "a restarted consumer delivers from its new start position (C02 monitor).")
ASSUME = ["SimCluster is Kafka", "small scope; deviation bounds in the notes"]


def run(tier, seed, only=None):
    if tier == "quick":
        plans = [("stop-shutdown-2dev", configs(tier), (1, 1, 2))]
    else:
        plans = [("stop-shutdown-3dev", configs(tier), (2, 1, 3))]
    return _dfs.run_plans(PROPERTY, SPEC, plans, seed, RULE, ASSUME, max_steps=400)
