"""Shared driver for deviation-bounded DFS checks on end-to-end harnesses."""
from mc import explore
from mc.runner import Report


def run_plans(prop, spec, plans, seed, rule, assumptions, max_steps=300, rep=None):
    """plans: [(name, [cfg...], bound(F,S[,T]))]"""
    rep = rep or Report(prop, "model_checking")
    for name, cfgs, bound in plans:
        cfgs = [dict(c, prop=prop) for c in cfgs]
        st = explore.explore_configs(spec, cfgs, bound, max_steps=max_steps, seed=seed)
        rep.add_stats(name, st)
        rep.notes.append("%s: %d configurations, deviation bound (faults<=%d, schedule<=%d%s): %d executions, "
                         "%d horizon hits" % (name, len(cfgs), bound[0], bound[1],
                                              (", total<=%d" % bound[2]) if len(bound) > 2 else "",
                                              st.executions, st.horizon_hits))
    rep.coverage["rule"] = rule
    rep.assumptions = assumptions
    return rep


def replay(v):
    from mc import bootstrap
    bootstrap.init()
    factory = explore.load_factory(v["harness"])
    x, h = explore.run_one(factory, v["cfg"], v["labels"],
                           max_steps=v.get("max_steps") or max(400, len(v["labels"]) + 50))
    return [dict(y.as_dict(), cfg=v["cfg"], labels=v["labels"], harness=v["harness"]) for y in x.violations]
