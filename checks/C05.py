"""C05 -- responses and message sets decode to exactly what was encoded.

Bounded-exhaustive enumeration: responses are produced by the independent
encoder (ref/refkafka.py) from small value domains, decoded by afkak, and the
decoded objects are compared field by field with what was encoded.
"""
import itertools

from mc import enum
from mc.explore import _digest
from mc.runner import Report
from ref import refkafka as rk

PROPERTY = "C05"

ERRORS = list(range(-1, 73))
I32 = [-2 ** 31, -1, 0, 1, 2 ** 31 - 1]
I64 = [-2 ** 63, -1, 0, 1, 1000, 2 ** 62, 2 ** 63 - 1]
TOPICS = ["t", "a.b_c-d", "T" * 249]
CORR = [0, 1, 2 ** 31 - 1, -1]


# ---------------------------------------------------------------------------
# response cases: (api, version, body) lists per decoder
# ---------------------------------------------------------------------------
def _topic_lists(part_bodies_small, part_bodies_all):
    """0..2 topics x 0..2 partitions; the full per-partition domain is swept in the
    one-topic/one-partition shape, the small one in multi shapes."""
    out = []
    out.append([])
    out.append([{"topic": "t", "partitions": []}])
    for pb in part_bodies_all:
        out.append([{"topic": "t", "partitions": [pb]}])
    for name in TOPICS[1:]:
        out.append([{"topic": name, "partitions": [part_bodies_small[0]]}])
    for a, b in itertools.product(part_bodies_small, repeat=2):
        a2 = dict(a, partition=0)
        b2 = dict(b, partition=1)
        out.append([{"topic": "t", "partitions": [a2, b2]}])
        out.append([{"topic": "t", "partitions": [b2, a2]}])
        out.append([{"topic": "t", "partitions": [a2]}, {"topic": "u", "partitions": [b2]}])
        out.append([{"topic": "u", "partitions": [a2, b2]}, {"topic": "t", "partitions": [b2]}])
    return out


def produce_cases(version):
    def part(p, e, o, lat=None):
        d = {"partition": p, "error": e, "offset": o}
        if version == 2:
            d["log_append_time"] = -1 if lat is None else lat
        return d
    allp = [part(0, e, 5) for e in ERRORS] + [part(p, 0, 7) for p in I32] + [part(1, 0, o) for o in I64]
    if version == 2:
        allp += [part(1, 0, 3, lat) for lat in I64]
    small = [part(0, 0, 0), part(0, 6, -1), part(0, 7, 2 ** 62)]
    for topics in _topic_lists(small, allp):
        body = {"topics": topics}
        if version >= 1:
            for th in ([0] if len(topics) != 1 else [0, 2 ** 31 - 1]):
                yield dict(body, throttle_ms=th)
        else:
            yield body


def fetch_cases(version, msgsets):
    def part(p, e, hw, recs):
        return {"partition": p, "error": e, "high_watermark": hw, "records": recs}
    empty = b""
    allp = [part(0, e, 5, empty) for e in ERRORS] + [part(p, 0, 7, empty) for p in I32] + \
        [part(1, 0, hw, empty) for hw in I64] + [part(0, 0, 10, ms) for ms in msgsets]
    small = [part(0, 0, 0, empty), part(0, 1, -1, empty), part(0, 0, 9, msgsets[1] if len(msgsets) > 1 else empty)]
    for topics in _topic_lists(small, allp):
        body = {"topics": topics}
        if version >= 1:
            yield dict(body, throttle_ms=0)
            if len(topics) == 1:
                yield dict(body, throttle_ms=2 ** 31 - 1)
        else:
            yield body


def offset_cases():
    def part(p, e, offs):
        return {"partition": p, "error": e, "offsets": offs}
    allp = [part(0, e, [1]) for e in ERRORS] + [part(p, 0, [2]) for p in I32] + \
        [part(0, 0, list(c)) for n in range(0, 3) for c in itertools.product(I64[:4] + [2 ** 63 - 1], repeat=n)]
    small = [part(0, 0, []), part(0, 3, [5]), part(0, 0, [2 ** 62, 0])]
    for topics in _topic_lists(small, allp):
        yield {"topics": topics}


def offset_commit_cases():
    def part(p, e):
        return {"partition": p, "error": e}
    allp = [part(0, e) for e in ERRORS] + [part(p, 0) for p in I32]
    small = [part(0, 0), part(0, 22), part(0, 25)]
    for topics in _topic_lists(small, allp):
        yield {"topics": topics}


def offset_fetch_cases():
    def part(p, o, md, e):
        return {"partition": p, "offset": o, "metadata": md, "error": e}
    mds = [None, "", "m", "é" * 3, "x" * 300]
    allp = [part(0, 5, "", e) for e in ERRORS] + [part(p, 1, "", 0) for p in I32] + \
        [part(0, o, md, 0) for o in I64 for md in mds]
    small = [part(0, -1, "", 0), part(0, 7, None, 0), part(0, 9, "md", 3)]
    for topics in _topic_lists(small, allp):
        yield {"topics": topics}


def metadata_cases():
    brokers_menu = [
        [],
        [{"node_id": 0, "host": "h0", "port": 9092}],
        [{"node_id": 2 ** 31 - 1, "host": "", "port": 0}, {"node_id": -1, "host": "b.example.com", "port": 65535}],
        [{"node_id": 1, "host": "x" * 255, "port": 2 ** 31 - 1}, {"node_id": 0, "host": "h", "port": -1}],
    ]

    def part(e, p, leader, replicas, isr):
        return {"error": e, "partition": p, "leader": leader, "replicas": replicas, "isr": isr}
    parts_all = [part(e, 0, 0, [0], [0]) for e in ERRORS] + [part(0, p, 1, [], []) for p in I32] + \
        [part(0, 0, ld, r, i) for ld in (-1, 0, 2 ** 31 - 1)
         for r in ([], [0], [0, 1], [2, 1, 0]) for i in ([], [0], [1, 0])]
    parts_small = [part(0, 0, 0, [0, 1], [0]), part(5, 1, -1, [], []), part(9, 2, 1, [1], [1])]
    topics_menu = [[]]
    for e in ERRORS:
        topics_menu.append([{"error": e, "topic": "t", "partitions": []}])
    for p in parts_all:
        topics_menu.append([{"error": 0, "topic": "t", "partitions": [p]}])
    for a, b in itertools.permutations(parts_small, 2):
        topics_menu.append([{"error": 0, "topic": "t", "partitions": [a, b]}])
        topics_menu.append([{"error": 0, "topic": "u", "partitions": [a]},
                            {"error": 3, "topic": TOPICS[1], "partitions": [b]}])
    topics_menu.append([{"error": 0, "topic": TOPICS[2], "partitions": parts_small}])
    for brokers in brokers_menu:
        for topics in topics_menu:
            yield {"brokers": brokers, "topics": topics}


def coordinator_cases():
    for e in ERRORS:
        yield {"error": e, "node_id": 1, "host": "h", "port": 9092}
    for n, h, p in itertools.product(I32, ["", "host.example", "h" * 255], I32):
        yield {"error": 0, "node_id": n, "host": h, "port": p}


def join_cases():
    ids = ["", "m", "m-é-1", "x" * 200]
    metas = [b"", b"\x00", b"\xff" * 70]
    for e in ERRORS:
        yield {"error": e, "generation": 1, "protocol": "consumer", "leader": "m", "member": "m", "members": []}
    for g in I32:
        for proto, leader, member in itertools.product(["", "consumer", "rö"], ids, ids):
            yield {"error": 0, "generation": g, "protocol": proto, "leader": leader, "member": member,
                   "members": []}
    for n in range(0, 3):
        for ms in itertools.product(itertools.product(ids, metas), repeat=n):
            yield {"error": 0, "generation": 3, "protocol": "consumer", "leader": "m", "member": "m",
                   "members": [{"member": i, "metadata": md} for i, md in ms]}


def simple_error_cases():
    for e in ERRORS + [-2 ** 15, 2 ** 15 - 1]:
        yield {"error": e}


def sync_cases():
    for e in ERRORS:
        yield {"error": e, "assignment": b""}
    for a in [b"", b"\x00", b"\x00\x00\x00\x00\x00\x00\xff\xff\xff\xff", b"z" * 70000]:
        yield {"error": 0, "assignment": a}


def api_versions_cases():
    def v(k, lo, hi):
        return {"api_key": k, "min": lo, "max": hi}
    tables = [[], [v(0, 0, 2)], [v(0, 0, 7), v(1, 0, 11), v(18, 0, 3)],
              [v(k, 0, k % 5) for k in range(0, 40)], [v(2 ** 15 - 1, -1, 2 ** 15 - 1), v(-2 ** 15, 0, 0)]]
    for e in ERRORS:
        for t in (tables[0], tables[2]):
            yield {"error": e, "versions": t}
    for t in tables:
        yield {"error": 0, "versions": t}


def subscription_cases():
    for ver in (0, 1, 2 ** 15 - 1):
        for n in range(0, 3):
            for ts in itertools.product(["t", "a.b", "ünicöde", "T" * 249], repeat=n):
                for ud in (None, b"", b"\x01\x02"):
                    yield {"version": ver, "topics": list(ts), "user_data": ud}


def assignment_cases():
    plists = [[], [0], [0, 1, 2], [2 ** 31 - 1, -1, 5]]
    for n in range(0, 3):
        for ts in itertools.permutations(["t", "a.b", "T" * 249], n):
            for ps in itertools.product(plists, repeat=n):
                for ud in (None, b"", b"\x01\x02"):
                    yield {"version": 0, "topics": [{"topic": t, "partitions": p} for t, p in zip(ts, ps)],
                           "user_data": ud}


# ---------------------------------------------------------------------------
# message-set corpus
# ---------------------------------------------------------------------------
KV = [None, b"", b"v"]


def message_set_cases(tier):
    """Yields (name, [msg dicts])."""
    bases = [0, 1000, 2 ** 62]
    tss = [-1, 0, 2 ** 63 - 1]
    out = []
    for magic in (0, 1):
        ts_dom = tss if magic == 1 else [None]
        # plain sets: 1..3 messages over the key/value domain, every base, gaps
        for base in bases:
            for ts in ts_dom:
                for k, v in itertools.product(KV, KV):
                    out.append(("plain", [rk.msg(base, k, v, magic=magic, timestamp=ts)]))
                for steps in ((1, 1), (1, 5), (7, 1)):
                    offs = [base, base + steps[0], base + steps[0] + steps[1]]
                    out.append(("plain-gaps", [rk.msg(o, b"k%d" % i, b"v%d" % i, magic=magic, timestamp=ts)
                                               for i, o in enumerate(offs)]))
        if magic == 1:
            out.append(("plain-ts-type", [rk.msg(5, b"k", b"v", magic=1, attributes=0x08, timestamp=77)]))
        # wrappers
        for codec in (1, 2):
            for base in bases:
                for n in (1, 2, 3):
                    for ts in ts_dom[:2]:
                        inner_abs = [rk.msg(base + i, (None, b"", b"k")[i % 3], (b"v", None, b"")[i % 3],
                                            magic=magic, timestamp=ts) for i in range(n)]
                        if magic == 0:
                            w = rk.msg(base + n - 1, None, None, magic=0, attributes=codec, inner=inner_abs)
                            out.append(("wrapper-v0", [w]))
                            # compacted wrapper: gap inside
                            if n == 3:
                                gap = [dict(inner_abs[0]), dict(inner_abs[2], offset=base + 9)]
                                out.append(("wrapper-v0-gap", [rk.msg(base + 9, None, None, magic=0,
                                                                      attributes=codec, inner=gap)]))
                        else:
                            inner_rel = [dict(m, offset=i) for i, m in enumerate(inner_abs)]
                            w = rk.msg(base + n - 1, None, None, magic=1, attributes=codec, inner=inner_rel,
                                       timestamp=ts)
                            out.append(("wrapper-v1-relative", [w]))
                            # old clients wrote absolute inner offsets into v1 wrappers; Kafka's rule covers it
                            w2 = rk.msg(base + n - 1, None, None, magic=1, attributes=codec, inner=inner_abs,
                                        timestamp=ts)
                            out.append(("wrapper-v1-absolute-inner", [w2]))
                            if n == 3:
                                gap = [dict(inner_rel[0]), dict(inner_rel[2], offset=9)]
                                out.append(("wrapper-v1-gap", [rk.msg(base + 9, None, None, magic=1,
                                                                      attributes=codec, inner=gap, timestamp=ts)]))
                    # wrapper followed by plain and by another wrapper
                    inner = [rk.msg((base + i) if magic == 0 else i, b"k", b"w%d" % i, magic=magic,
                                    timestamp=ts_dom[0]) for i in range(2)]
                    w = rk.msg(base + 1, None, None, magic=magic, attributes=codec, inner=inner,
                               timestamp=ts_dom[0])
                    tail = rk.msg(base + 2, b"k", b"tail", magic=magic, timestamp=ts_dom[0])
                    inner2 = [rk.msg((base + 3 + i) if magic == 0 else i, None, b"x%d" % i, magic=magic,
                                     timestamp=ts_dom[0]) for i in range(2)]
                    w3 = rk.msg(base + 4, None, None, magic=magic, attributes=3 - codec, inner=inner2,
                                timestamp=ts_dom[0])
                    out.append(("wrapper-mixed", [w, tail, w3]))
        # a gzip wrapper whose value is a multi-member gzip stream (legal gzip; written by some producers that
        # flush their compressor between appends)
        for base in bases[:2]:
            for k in (2, 3):
                inner = [rk.msg((base + i) if magic == 0 else i, b"k%d" % i, b"mm%d" % i, magic=magic,
                                timestamp=ts_dom[0]) for i in range(3)]
                w = rk.msg(base + 2, None, None, magic=magic, attributes=1, inner=inner, timestamp=ts_dom[0])
                w["members"] = k
                out.append(("wrapper-gzip-multimember", [w]))
        # nesting depth 2 (a wrapper inside a wrapper), both codec orders
        for c1, c2 in ((1, 2), (2, 1), (1, 1)):
            leaf = [rk.msg((100 + i) if magic == 0 else i, b"k", b"n%d" % i, magic=magic, timestamp=ts_dom[0])
                    for i in range(2)]
            mid = rk.msg(101 if magic == 0 else 1, None, None, magic=magic, attributes=c2, inner=leaf,
                         timestamp=ts_dom[0])
            top = rk.msg(101, None, None, magic=magic, attributes=c1, inner=[mid], timestamp=ts_dom[0])
            out.append(("nested-2", [top]))
    return out


def _expected_leaves(msgs):
    return [(m["offset"], m["magic"], m["attributes"], m["key"], m["value"], m["timestamp"])
            for m in rk.flatten(msgs, absolute=True)]


def _got_leaves(oms):
    return [(om.offset, om.message.magic, om.message.attributes, om.message.key, om.message.value,
             om.message.timestamp) for om in oms]


# ---------------------------------------------------------------------------
# units
# ---------------------------------------------------------------------------
def _norm_produce(resps):
    return [(r.topic, r.partition, r.error, r.offset) for r in resps]


def _flat(body, fields):
    return [(t["topic"],) + tuple(p[f] for f in fields) for t in body["topics"] for p in t["partitions"]]


def _compare(st, api, version, body, corr, name):
    """Decode one response with afkak and compare. Returns None or (signature, message)."""
    from afkak.kafkacodec import KafkaCodec as K
    data = rk.encode_response(api, version, corr, body)
    if K.get_response_correlation_id(data) != corr:
        return ("C05:correlation-id", "get_response_correlation_id -> %r, encoded %r" % (
            K.get_response_correlation_id(data), corr))
    if api == rk.PRODUCE:
        got = _norm_produce(list(K.decode_produce_response(data, api_version=version)))
        want = _flat(body, ("partition", "error", "offset"))
    elif api == rk.FETCH:
        rs = list(K.decode_fetch_response(data, api_version=version))
        got = [(r.topic, r.partition, r.error, r.highwaterMark) for r in rs]
        want = _flat(body, ("partition", "error", "high_watermark"))
        if got == want:
            wantm = [_expected_leaves(rk.parse_message_set(p["records"])) if p["records"] else []
                     for t in body["topics"] for p in t["partitions"]]
            gotm = [_got_leaves(list(r.messages)) for r in rs]
            if gotm != wantm:
                return ("C05:fetch-messages", "messages %r, encoded %r" % (gotm, wantm))
    elif api == rk.LIST_OFFSETS:
        got = [(r.topic, r.partition, r.error, list(r.offsets)) for r in K.decode_offset_response(data)]
        want = _flat(body, ("partition", "error", "offsets"))
    elif api == rk.OFFSET_COMMIT:
        got = [(r.topic, r.partition, r.error) for r in K.decode_offset_commit_response(data)]
        want = _flat(body, ("partition", "error"))
    elif api == rk.OFFSET_FETCH:
        got = [(r.topic, r.partition, r.offset, r.metadata, r.error) for r in K.decode_offset_fetch_response(data)]
        want = [(t, p, o, None if m is None else m.encode("utf-8"), e)
                for (t, p, o, m, e) in _flat(body, ("partition", "offset", "metadata", "error"))]
    elif api == rk.METADATA:
        brokers, topics = K.decode_metadata_response(data)
        got = (sorted((b.node_id, b.host, b.port) for b in brokers.values()),
               sorted((t.topic, t.topic_error_code, sorted(
                   (pm.topic, pm.partition, pm.partition_error_code, pm.leader, list(pm.replicas), list(pm.isr))
                   for pm in t.partition_metadata.values())) for t in topics.values()),
               sorted(brokers.keys()), sorted(topics.keys()),
               sorted((k, sorted(v.partition_metadata.keys())) for k, v in topics.items()))
        want = (sorted((b["node_id"], b["host"], b["port"]) for b in body["brokers"]),
                sorted((t["topic"], t["error"], sorted(
                    (t["topic"], p["partition"], p["error"], p["leader"], p["replicas"], p["isr"])
                    for p in t["partitions"])) for t in body["topics"]),
                sorted(b["node_id"] for b in body["brokers"]), sorted(t["topic"] for t in body["topics"]),
                sorted((t["topic"], sorted(p["partition"] for p in t["partitions"])) for t in body["topics"]))
    elif api == rk.FIND_COORDINATOR:
        r = K.decode_consumermetadata_response(data)
        got = (r.error, r.node_id, r.host, r.port)
        want = (body["error"], body["node_id"], body["host"], body["port"])
    elif api == rk.JOIN_GROUP:
        r = K.decode_join_group_response(data)
        got = (r.error, r.generation_id, r.group_protocol, r.leader_id, r.member_id,
               [(m.member_id, m.member_metadata) for m in r.members])
        want = (body["error"], body["generation"], body["protocol"], body["leader"], body["member"],
                [(m["member"], m["metadata"]) for m in body["members"]])
    elif api == rk.HEARTBEAT:
        got, want = K.decode_heartbeat_response(data).error, body["error"]
    elif api == rk.LEAVE_GROUP:
        got, want = K.decode_leave_group_response(data).error, body["error"]
    elif api == rk.SYNC_GROUP:
        r = K.decode_sync_group_response(data)
        got, want = (r.error, r.member_assignment), (body["error"], body["assignment"])
    elif api == rk.API_VERSIONS:
        r = K.decode_api_versions_response(data)
        got = (r.error_code, [(v.api_key, v.min_version, v.max_version) for v in r.api_versions])
        want = (body["error"], [(v["api_key"], v["min"], v["max"]) for v in body["versions"]])
    else:
        raise AssertionError(api)
    if got != want:
        return ("C05:%s-v%d-decodes-differently" % (rk.API_NAMES[api], version),
                "decoded %r, encoded %r" % (got, want))
    return None


RESPONSE_FAMILIES = [
    ("produce0", rk.PRODUCE, 0), ("produce2", rk.PRODUCE, 2), ("fetch0", rk.FETCH, 0), ("fetch2", rk.FETCH, 2),
    ("offsets", rk.LIST_OFFSETS, 0), ("metadata", rk.METADATA, 0), ("commit", rk.OFFSET_COMMIT, 1),
    ("offsetfetch", rk.OFFSET_FETCH, 1), ("coordinator", rk.FIND_COORDINATOR, 0), ("join", rk.JOIN_GROUP, 0),
    ("heartbeat", rk.HEARTBEAT, 0), ("leave", rk.LEAVE_GROUP, 0), ("sync", rk.SYNC_GROUP, 0),
    ("apiversions", rk.API_VERSIONS, 0),
]


def _cases_for(name, tier):
    if name.startswith("produce"):
        return produce_cases(int(name[-1]))
    if name.startswith("fetch"):
        sets = [rk.encode_message_set(ms) for _n, ms in message_set_cases(tier)]
        keep = sets[::7] if tier == "quick" else sets[::3]
        return fetch_cases(int(name[-1]), [b""] + keep)
    return {"offsets": offset_cases, "metadata": metadata_cases, "commit": offset_commit_cases,
            "offsetfetch": offset_fetch_cases, "coordinator": coordinator_cases, "join": join_cases,
            "heartbeat": simple_error_cases, "leave": simple_error_cases, "sync": sync_cases,
            "apiversions": api_versions_cases}[name]()


def response_unit(u):
    st = enum.EnumStats()
    name, api, version = u["family"]
    sigs = set()
    for i, body in enumerate(_cases_for(name, u["tier"])):
        for corr in (CORR if i % 50 == 0 else CORR[1:2]):
            st.evaluations += 1
            try:
                bad = _compare(st, api, version, body, corr, name)
            except Exception as e:
                bad = ("C05:%s-v%d-decoder-raises:%s" % (rk.API_NAMES[api], version, type(e).__name__),
                       "decoder raised %r" % (e,))
            if bad and bad[0] not in sigs:
                sigs.add(bad[0])
                st.violations.append({"oracle": "response-roundtrip", "signature": bad[0],
                                      "message": "%s; response body %r" % (bad[1], _short(body)),
                                      "input": {"family": list(u["family"]), "index": i, "corr": corr,
                                                "tier": u["tier"]},
                                      "check": "checks.C05"})
        st.classes.add(_digest((name, _shape(body))))
        if i == 3 and not st.samples:
            st.samples.append({"api": rk.API_NAMES[api], "version": version, "body": _short(body)})
    return st


def _short(o):
    s = repr(o)
    return s if len(s) < 600 else s[:600] + "..."


def _shape(body):
    """Shape class of a response body: structure + value classes (used to count distinct cases)."""
    def cls(v):
        if isinstance(v, bool) or v is None:
            return v
        if isinstance(v, int):
            return v if -2 <= v <= 80 else ("big" if v > 0 else "neg")
        if isinstance(v, (bytes, str)):
            return (type(v).__name__, min(len(v), 3))
        if isinstance(v, list):
            return tuple(cls(x) for x in v)
        if isinstance(v, dict):
            return tuple((k, cls(x)) for k, x in sorted(v.items()))
        return repr(v)
    return cls(body)


def blob_unit(u):
    from afkak.kafkacodec import KafkaCodec as K
    st = enum.EnumStats()
    sigs = set()
    if u["kind"] == "subscription":
        for c in subscription_cases():
            st.evaluations += 1
            try:
                r = K.decode_join_group_protocol_metadata(rk.SUBSCRIPTION.enc(c))
                got = (r.version, list(r.subscriptions), r.user_data)
            except Exception as e:
                got = ("raised", repr(e))
            want = (c["version"], c["topics"], c["user_data"])
            if got != want and "sub" not in sigs:
                sigs.add("sub")
                st.violations.append({"oracle": "blob-roundtrip", "signature": "C05:subscription-decodes-differently",
                                      "message": "decoded %r, encoded %r" % (got, want),
                                      "input": {"kind": "subscription"}, "check": "checks.C05"})
            st.classes.add(_digest(_shape(c)))
    else:
        for c in assignment_cases():
            st.evaluations += 1
            try:
                r = K.decode_sync_group_member_assignment(rk.ASSIGNMENT.enc(c))
                got = (r.version, {t: list(p) for t, p in r.assignments.items()}, r.user_data,
                       list(r.assignments.keys()))
            except Exception as e:
                got = ("raised", repr(e))
            want = (c["version"], {t["topic"]: t["partitions"] for t in c["topics"]}, c["user_data"],
                    [t["topic"] for t in c["topics"]])
            if got != want and "asg" not in sigs:
                sigs.add("asg")
                st.violations.append({"oracle": "blob-roundtrip", "signature": "C05:assignment-decodes-differently",
                                      "message": "decoded %r, encoded %r" % (got, want),
                                      "input": {"kind": "assignment"}, "check": "checks.C05"})
            st.classes.add(_digest(_shape(c)))
    return st


def msgset_unit(u):
    """Message-set corpus slice: reference-encoded sets decoded by afkak; afkak encode o decode = id."""
    from afkak.common import Message, SendRequest
    from afkak.kafkacodec import KafkaCodec as K, create_message_set
    st = enum.EnumStats()
    sigs = set()
    cases = message_set_cases(u["tier"])
    for i, (name, msgs) in enumerate(cases):
        if i % u["of"] != u["slice"]:
            continue
        st.evaluations += 1
        data = rk.encode_message_set(msgs)
        want = _expected_leaves(msgs)
        magic = msgs[0]["magic"]
        try:
            got = _got_leaves(list(K._decode_message_set_iter(data)))
        except Exception as e:
            got = ("raised", repr(e))
        ok = got == want
        if not ok and name == "nested-2" and magic == 1 and isinstance(got, list):
            # the protocol defines no offsets for nested v1 wrappers: compare content and order only
            ok = [g[1:] for g in got] == [w[1:] for w in want]
        if not ok:
            sig = "C05:message-set-%s-magic%d" % (name, magic)
            if isinstance(got, list) and len(got) == len(want) and [g[1:] for g in got] == [w[1:] for w in want]:
                sig += ":offsets"
            if sig not in sigs:
                sigs.add(sig)
                st.violations.append({"oracle": "message-set-decode", "signature": sig,
                                      "message": "decoded %s, encoded %s (wrapper offsets %r)" % (
                                          _short(got), _short(want), [m["offset"] for m in msgs]),
                                      "input": {"case": i, "name": name, "tier": u["tier"]}, "check": "checks.C05"})
        st.classes.add(_digest((name, magic, len(want), [m["attributes"] for m in msgs],
                                [(w[3] is None, w[4] is None) for w in want], want[0][0] if want else None)))
        if name == "wrapper-v1-relative" and not st.samples:
            st.samples.append({"case": name, "wrapper_offset": msgs[0]["offset"],
                               "expected_leaf_offsets": [w[0] for w in want]})
    # afkak encode o afkak decode = identity on messages (plain sets with explicit offsets, and
    # create_message_set for every codec / magic)
    if u["slice"] == 0:
        for magic, ts0 in ((0, None), (1, 12345), (1, 0), (1, -1), (1, 2 ** 63 - 1), (1, 1)):
            for base in (0, 1000, 2 ** 62):
                for kvs in itertools.product(itertools.product(KV, KV), repeat=2):
                    st.evaluations += 1
                    ms = [Message(magic, 0, k, v, ts0) for k, v in kvs]
                    enc = K._encode_message_set(ms, offset=base)
                    back = list(K._decode_message_set_iter(enc))
                    got = [(om.offset, om.message.magic, om.message.attributes, om.message.key, om.message.value,
                            om.message.timestamp) for om in back]
                    want = [(base + i, magic, 0, k, v, ts0) for i, (k, v) in enumerate(kvs)]
                    if got != want and "id" not in sigs:
                        sigs.add("id")
                        st.violations.append({"oracle": "encode-decode-identity",
                                              "signature": "C05:encode-decode-not-identity:plain",
                                              "message": "got %r want %r" % (got, want),
                                              "input": {"identity": "plain"}, "check": "checks.C05"})
                    # also cross-check afkak's bytes with the reference parser
                    ref = rk.parse_message_set(enc)
                    if [(m["offset"], m["key"], m["value"]) for m in ref] != [(w[0], w[3], w[4]) for w in want]:
                        if "idref" not in sigs:
                            sigs.add("idref")
                            st.violations.append({"oracle": "encode-decode-identity",
                                                  "signature": "C05:afkak-encoding-parses-differently",
                                                  "message": "reference parse %r want %r" % (ref, want),
                                                  "input": {"identity": "plain"}, "check": "checks.C05"})
            for codec in (0, 1, 2):
                for msgs_in in ([b"a"], [None], [b""], [b"a", None, b"", b"b" * 1000]):
                    for key in (None, b"", b"k"):
                        st.evaluations += 1
                        reqs = [SendRequest("t", key, msgs_in, None), SendRequest("t", b"k2", [b"z"], None)]
                        mset = create_message_set(reqs, codec, magic=magic) if magic else \
                            create_message_set(reqs, codec)
                        enc = K._encode_message_set(mset)
                        back = list(K._decode_message_set_iter(enc))
                        got = [(om.message.key, om.message.value, om.message.magic) for om in back]
                        want = [(key, m, magic) for m in msgs_in] + [(b"k2", b"z", magic)]
                        if got != want:
                            sig = "C05:encode-decode-not-identity:codec%d-magic%d" % (codec, magic)
                            if sig not in sigs:
                                sigs.add(sig)
                                st.violations.append({"oracle": "encode-decode-identity", "signature": sig,
                                                      "message": "got %r want %r" % (got, want),
                                                      "input": {"identity": [codec, magic]}, "check": "checks.C05"})
                        st.classes.add(_digest(("id", codec, magic, key, len(msgs_in))))
    return st


def replay(v):
    inp = v["input"]
    if "family" in inp:
        st = response_unit({"family": tuple(inp["family"]), "tier": inp.get("tier", "quick")})
    elif "kind" in inp:
        st = blob_unit(inp)
    else:
        st = msgset_unit({"tier": inp.get("tier", "quick"), "slice": 0, "of": 1})
    return [x for x in st.violations if x["signature"] == v["signature"]]


def run(tier, seed, only=None):
    rep = Report(PROPERTY, "exploration")
    units = [{"family": f, "tier": tier} for f in RESPONSE_FAMILIES]
    st = enum.run_units("checks.C05:response_unit", units, seed)
    enum.fold(rep, "responses", st)
    st = enum.run_units("checks.C05:blob_unit", [{"kind": "subscription"}, {"kind": "assignment"}], seed)
    enum.fold(rep, "embedded-consumer-protocol", st)
    n = 8
    st = enum.run_units("checks.C05:msgset_unit", [{"tier": tier, "slice": i, "of": n} for i in range(n)], seed)
    enum.fold(rep, "message-sets", st)
    rep.coverage["rule"] = (
        "responses: for each of the 14 response layouts (Produce v0/v2, Fetch v0/v2, ListOffsets, Metadata, "
        "OffsetCommit v1, OffsetFetch v1, FindCoordinator, JoinGroup, Heartbeat, LeaveGroup, SyncGroup, ApiVersions) "
        "and the two embedded consumer-protocol blobs, the product of small value domains (every error code -1..72, "
        "boundary ints, null/empty/long strings and bytes, 0..2 topics x 0..2 partitions/members in both orders) "
        "encoded by refkafka and decoded by afkak; message sets: magic {0,1} x codec {none,gzip,snappy-shim} x "
        "key/value in {null,empty,bytes} x base offsets {0,1000,2^62} x gaps x timestamps, gzip wrappers holding a "
        "multi-member gzip stream, wrappers with relative "
        "and absolute inner offsets, mixed sets, nesting depth 2; plus afkak encode->decode identity. Distinct "
        "non-trivial = distinct structural/value-class shapes.")
    rep.assumptions = ["refkafka is the independent encoder (validated by its own round-trip self-test)",
                       "snappy is a format-conformant pure-Python shim (python-snappy is not installed)",
                       "nested v1 wrappers (undefined by the protocol) are compared on content and order only"]
    return rep
