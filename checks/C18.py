"""C18 -- partitioners are deterministic, in range, Java-compatible and fair.

Part "hash": bounded-exhaustive key enumeration compared with Kafka's
Utils.murmur2 executed on the JVM (ref/murmur/KafkaMurmur2.java).
Part "rr": every history of partition() calls with list changes up to a depth,
with every start offset the randint seam can return.
"""
import itertools
import os
import struct
import subprocess

from mc import bootstrap, enum
from mc.explore import _digest
from mc.runner import Report

PROPERTY = "C18"
ALPHA = bytes([0x00, 0x01, 0x61, 0x7F, 0x80, 0xFF])
BUILD = os.path.join(bootstrap.VERIF_ROOT, "build")
LISTS = [[0], [0, 1], [0, 1, 2], [0, 1, 2, 3, 4, 5, 6], [3, 8, 20], list(range(100000))]
TEXT_ALPHA = ["a", "é", "€", "\U0001d11e", "\x00"]


def ensure_jvm():
    os.makedirs(BUILD, exist_ok=True)
    src = os.path.join(bootstrap.VERIF_ROOT, "ref", "murmur", "KafkaMurmur2.java")
    cls = os.path.join(BUILD, "KafkaMurmur2.class")
    if not os.path.exists(cls) or os.path.getmtime(cls) < os.path.getmtime(src):
        subprocess.check_call(["javac", "-d", BUILD, src])
    out = subprocess.check_output(["java", "-cp", BUILD, "KafkaMurmur2", "vectors"]).decode()
    if "vectors ok" not in out:
        raise RuntimeError("JVM murmur2 does not reproduce Kafka's published vectors: " + out)


def jvm_enum(maxlen):
    path = os.path.join(BUILD, "murmur_%s_%d.bin" % (ALPHA.hex(), maxlen))
    subprocess.check_call(["java", "-cp", BUILD, "KafkaMurmur2", "enum", ALPHA.hex(), str(maxlen), path])
    return path


def jvm_hashes(keys):
    inp = "\n".join(k.hex() for k in keys) + "\n"
    out = subprocess.run(["java", "-cp", BUILD, "KafkaMurmur2", "stdin"], input=inp.encode(), check=True,
                         stdout=subprocess.PIPE).stdout.decode().split()
    assert len(out) == len(keys)
    return [int(x) for x in out]


def _offset_of_length(n):
    return sum(len(ALPHA) ** i for i in range(n))


def hash_unit(u):
    """Compare pure_murmur2 / HashedPartitioner with the JVM for one slice of the key space."""
    from afkak.partitioner import HashedPartitioner, pure_murmur2

    st = enum.EnumStats()
    hp = HashedPartitioner("t", [0])
    length, first = u["len"], u["first"]
    with open(u["path"], "rb") as f:
        per_first = len(ALPHA) ** (length - 1) if length else 1
        start = _offset_of_length(length) + (first * per_first if length else 0)
        f.seek(4 * start)
        raw = f.read(4 * per_first)
    java = struct.unpack(">%di" % per_first, raw)
    prefix = bytes([ALPHA[first]]) if length else b""
    small_lists = LISTS[:5]
    check_part = length <= u["part_len"]
    i = 0
    for rest in itertools.product(ALPHA, repeat=max(length - 1, 0)):
        key = prefix + bytes(rest)
        j = java[i]
        i += 1
        st.evaluations += 1
        got = pure_murmur2(bytearray(key))
        if got != (j & 0xFFFFFFFF) or not (0 <= got <= 0xFFFFFFFF):
            st.violations.append({
                "oracle": "murmur2-java", "signature": "C18:murmur2-differs-from-java:len%%4=%d" % (length % 4),
                "message": "pure_murmur2(%r)=%d, Java murmur2=%d (unsigned %d)" % (key, got, j, j & 0xFFFFFFFF),
                "input": {"key": key.hex()}, "check": "checks.C18:replay_key"})
            if len(st.violations) > 5:
                break
        if check_part:
            for L in small_lists + ([LISTS[5]] if length <= 3 else []):
                want = L[(j & 0x7FFFFFFF) % len(L)]
                p1 = hp.partition(key, L)
                p2 = hp.partition(bytearray(key), L)
                if p1 != want or p2 != want:
                    st.violations.append({
                        "oracle": "hashed-partition", "signature": "C18:hashed-partition-differs-from-java",
                        "message": "partition(%r, list of %d)=%r/%r, Java client picks %r" % (
                            key, len(L), p1, p2, want),
                        "input": {"key": key.hex(), "n": len(L)}, "check": "checks.C18:replay_key"})
                st.evaluations += 1
        st.classes.add(_digest((length % 4, key[:1], key[-1:], j & 3)))
    if length == 5 and first == 4 and not st.samples:
        st.samples.append({"key_hex": (prefix + bytes([ALPHA[0]] * (length - 1))).hex(), "java": java[0]})
    return st


def misc_unit(u):
    """Long keys, text-vs-bytes agreement, type handling, determinism."""
    from afkak.partitioner import HashedPartitioner, pure_murmur2

    st = enum.EnumStats()
    hp = HashedPartitioner("t", [0, 1, 2])
    keys = []
    for n in range(9, 68):
        keys.append(bytes([0x80 + (i * 7) % 128 for i in range(n)]))
        keys.append(bytes([0xFF] * n))
        keys.append(bytes([(i * 31 + n) % 256 for i in range(n)]))
    texts = []
    for n in range(0, 5):
        for t in itertools.product(TEXT_ALPHA, repeat=n):
            texts.append("".join(t))
    keys += [t.encode("utf-8") for t in texts]
    java = jvm_hashes(keys)
    jmap = dict(zip(keys, java))
    for k in keys:
        st.evaluations += 1
        if pure_murmur2(bytearray(k)) != (jmap[k] & 0xFFFFFFFF):
            st.violations.append({"oracle": "murmur2-java", "signature": "C18:murmur2-differs-from-java:long",
                                  "message": "pure_murmur2(%r) != Java %d" % (k, jmap[k]),
                                  "input": {"key": k.hex()}, "check": "checks.C18:replay_key"})
        st.classes.add(_digest(("long", len(k) % 4, len(k) > 8)))
    for t in texts:
        b = t.encode("utf-8")
        for L in LISTS[:5]:
            st.evaluations += 1
            want = L[(jmap[b] & 0x7FFFFFFF) % len(L)]
            a1 = hp.partition(t, L)
            a2 = hp.partition(b, L)
            a3 = HashedPartitioner("other", [9]).partition(bytearray(b), L)
            if not (a1 == a2 == a3 == want):
                st.violations.append({"oracle": "hashed-partition", "signature": "C18:text-and-bytes-disagree",
                                      "message": "key %r: text->%r bytes->%r bytearray(fresh instance)->%r java->%r "
                                      "(list %r)" % (t, a1, a2, a3, want, L),
                                      "input": {"key": b.hex(), "text": True}, "check": "checks.C18:replay_key"})
            if a1 not in L:
                st.violations.append({"oracle": "hashed-partition", "signature": "C18:partition-not-in-list",
                                      "message": "key %r -> %r not in %r" % (t, a1, L), "input": {"key": b.hex()},
                                      "check": "checks.C18:replay_key"})
        st.classes.add(_digest(("text", len(b) % 4, len(t))))
    st.samples.append({"text_key": "aé", "java": jmap["aé".encode("utf-8")]})
    return st


RR_LISTS = [[0], [0, 1], [0, 1, 2], [1, 5, 9, 11]]
# second family: changes that keep the length (one or two partitions replaced; ascending lists only, as the property states)
RR_LISTS_SAMELEN = [[0, 1, 2], [0, 1, 3], [0, 2, 3], [0, 1]]
RR_FAMILIES = [RR_LISTS, RR_LISTS_SAMELEN]


def rr_unit(u):
    """All histories (sequences of list choices) of length `depth` that start with u['first'],
    with every scripted randint answer when randomStart is on."""
    import afkak.partitioner as ap

    st = enum.EnumStats()
    depth = u["depth"]
    random_start = u["random_start"]
    RR_LISTS = RR_FAMILIES[u.get("family", 0)]
    orig_randint = ap.randint
    answers = []

    def fake_randint(a, b):
        v = answers.pop(0) if answers else a
        if not (a <= v <= b):
            v = a + (v - a) % (b - a + 1)
        return v

    ap.randint = fake_randint
    ap.RoundRobinPartitioner.set_random_start(random_start)
    try:
        scripts = [[]] if not random_start else [[x, y] for x in range(4) for y in range(4)]
        for tail in itertools.product(range(len(RR_LISTS)), repeat=depth - 1):
            hist = (u["first"],) + tail
            for script in scripts:
                answers[:] = list(script)
                st.evaluations += 1
                L0 = RR_LISTS[hist[0]]
                picks = []
                if u.get("inplace"):
                    # the caller owns one list object and updates it in place when the topic changes
                    shared = list(L0)
                    p = ap.RoundRobinPartitioner("t", shared)
                    for li in hist:
                        shared[:] = RR_LISTS[li]
                        picks.append(p.partition(None, shared))
                else:
                    p = ap.RoundRobinPartitioner("t", list(L0))
                    for li in hist:
                        L = RR_LISTS[li]
                        picks.append(p.partition(None, list(L)))
                # oracle: split into maximal runs with an unchanged list
                i = 0
                nchanges = 0
                bad = None
                while i < len(hist):
                    j = i
                    while j < len(hist) and hist[j] == hist[i]:
                        j += 1
                    L = RR_LISTS[hist[i]]
                    run = picks[i:j]
                    n = len(L)
                    for x in run:
                        if x not in L:
                            bad = "pick %r not in list %r" % (x, L)
                    for w in range(0, max(0, len(run) - n) + 1):
                        win = run[w:w + n]
                        if len(win) == n and sorted(win) != sorted(L):
                            bad = "window %r over list %r is not a permutation" % (win, L)
                        if len(win) < n and len(set(win)) != len(win):
                            bad = "repeat inside a partial cycle %r over %r" % (win, L)
                    nchanges += 1
                    i = j
                if bad:
                    st.violations.append({
                        "oracle": "rr-fair", "signature": "C18:round-robin-unfair:%s" % (
                            "random-start" if random_start else "fixed-start"),
                        "message": "%s; lists chosen %r, randint answers %r, picks %r" % (
                            bad, [RR_LISTS[x] for x in hist], script, picks),
                        "input": {"hist": list(hist), "script": script, "random_start": random_start,
                                  "inplace": bool(u.get("inplace")), "family": u.get("family", 0)},
                        "check": "checks.C18:replay_rr"})
                    if len(st.violations) > 5:
                        return st
                if nchanges > 1:
                    st.classes.add(_digest((hist, tuple(script))))
        if u["first"] == 2 and not random_start:
            st.samples.append({"lists": [RR_LISTS[x] for x in hist], "picks": picks})
    finally:
        ap.randint = orig_randint
        ap.RoundRobinPartitioner.set_random_start(False)
    return st


def insitu_unit(u):
    """The producer keeps one partitioner per topic and hands it the client's current partition list: unkeyed
    sends cycle fairly over the topic's partitions, keyed sends land on the partition the Java client picks."""
    from mc import explore
    st = enum.EnumStats()
    nparts = u["nparts"]
    cluster = {"brokers": [1, 2], "topics": {"t": {str(p): 1 + p % 2 for p in range(nparts)},
                                             "u": {"0": 1, "1": 2}}, "meta_order": u.get("meta_order", "asc")}
    if u.get("leaderless") is not None:
        cluster["topics"]["t"][str(u["leaderless"])] = -1  # this partition is electing a leader
    keys = ["k%d" % i for i in range(4)]
    if u["partitioner"] == "rr":
        script = []
        for i in range(2 * nparts):
            script.append(["send", "t", None, ["t%d" % i]])
            if i % 2:
                script.append(["send", "u", None, ["u%d" % i]])  # interleaved topic must not disturb the cycle
    else:
        script = [["send", "t", k, ["v-%s-%d" % (k, j)]] for j in range(2) for k in keys]
    cfg = {"prop": "C18", "cluster": cluster, "discovery": False,
           "producer": {"acks": 1, "partitioner": u["partitioner"], "batch_send": u["batched"],
                        "batch_every_n": 2, "batch_every_b": 0, "batch_every_t": 0},
           "script": script, "menu": {}, "timeout_ms": 2000}
    factory = explore.load_factory("harness.producer:ProducerWorld")
    x, h = explore.run_one(factory, cfg, [], max_steps=400)
    st.evaluations += 1
    chosen = {}  # send index -> partition
    for (_step, _t, idx, content) in h.calls:
        for (topic, part), kvs in content.items():
            for kv in kvs:
                o = h.value_owner.get(kv)
                if o is not None and o[0] not in chosen:
                    chosen[o[0]] = (topic, part)
    if u["partitioner"] == "rr":
        seq = [chosen[s.i][1] for s in h.sends if s.topic == "t" and s.i in chosen]
        if len(seq) != 2 * nparts:
            st.violations.append({"oracle": "in-situ", "signature": "C18:in-situ-sends-not-dispatched",
                                  "message": "only %d of %d sends reached the client" % (len(seq), 2 * nparts),
                                  "input": {"insitu": u}, "check": "checks.C18"})
        for w in range(0, max(0, len(seq) - nparts) + 1):
            win = seq[w:w + nparts]
            if len(win) == nparts and sorted(win) != list(range(nparts)):
                st.violations.append({"oracle": "in-situ", "signature": "C18:in-situ-round-robin-unfair",
                                      "message": "producer chose partitions %r for consecutive unkeyed sends to a "
                                      "topic with partitions %r" % (seq, list(range(nparts))),
                                      "input": {"insitu": u}, "check": "checks.C18"})
                break
    else:
        java = dict(zip(keys, jvm_hashes([k.encode() for k in keys])))
        for s_ in h.sends:
            if s_.i not in chosen:
                continue
            want = (java[s_.key.decode()] & 0x7FFFFFFF) % nparts
            if chosen[s_.i][1] != want:
                st.violations.append({"oracle": "in-situ", "signature": "C18:in-situ-keyed-send-on-wrong-partition",
                                      "message": "key %r went to partition %d, the Java client picks %d of %d" % (
                                          s_.key, chosen[s_.i][1], want, nparts),
                                      "input": {"insitu": u}, "check": "checks.C18"})
                break
    st.classes.add(_digest(("insitu", u["partitioner"], nparts, u["batched"], u.get("meta_order"), u.get("leaderless"))))
    st.samples.append({"in_situ": u, "partitions_chosen": [chosen.get(s_.i) for s_ in h.sends][:8]})
    return st


def replay(v):
    inp = v["input"]
    if "insitu" in inp:
        ensure_jvm()
        return [x for x in insitu_unit(inp["insitu"]).violations if x["signature"] == v["signature"]][:1]
    if "hist" in inp:
        st = rr_unit({"first": inp["hist"][0], "depth": len(inp["hist"]), "random_start": inp["random_start"],
                      "inplace": inp.get("inplace", False), "family": inp.get("family", 0)})
        return [x for x in st.violations if x["signature"] == v["signature"]][:1]
    from afkak.partitioner import HashedPartitioner, pure_murmur2
    key = bytes.fromhex(inp["key"])
    ensure_jvm()
    j = jvm_hashes([key])[0]
    out = []
    if pure_murmur2(bytearray(key)) != (j & 0xFFFFFFFF):
        out.append(dict(v, message="pure_murmur2(%r)=%d java=%d" % (key, pure_murmur2(bytearray(key)), j)))
    else:
        hp = HashedPartitioner("t", [0])
        for L in LISTS:
            want = L[(j & 0x7FFFFFFF) % len(L)]
            got = [hp.partition(key, L), hp.partition(bytearray(key), L)]
            if inp.get("text"):
                got.append(hp.partition(key.decode("utf-8"), L))
            if any(g != want for g in got):
                out.append(dict(v, message="partition(%r) -> %r, java %r" % (key, got, want)))
                break
    return out


def run(tier, seed, only=None):
    rep = Report(PROPERTY, "exploration")
    ensure_jvm()
    maxlen = 8 if tier == "quick" else 9
    parts = only or ["hash", "misc", "rr"]
    if "hash" in parts:
        path = jvm_enum(maxlen)
        units = [{"len": 0, "first": 0, "path": path, "part_len": 5}]
        for n in range(1, maxlen + 1):
            for first in range(len(ALPHA)):
                units.append({"len": n, "first": first, "path": path, "part_len": 5 if tier == "quick" else 6})
        st = enum.run_units("checks.C18:hash_unit", units, seed)
        enum.fold(rep, "murmur2-vs-jvm", st)
        try:
            os.unlink(path)
        except OSError:
            pass
    if "misc" in parts:
        st = enum.run_units("checks.C18:misc_unit", [{}], seed)
        enum.fold(rep, "long-and-text-keys", st)
    if "rr" in parts:
        depth = 8 if tier == "quick" else 10
        units = [{"first": f, "depth": depth, "random_start": rs} for f in range(len(RR_LISTS))
                 for rs in (False, True)]
        units += [{"first": f, "depth": depth - 2, "random_start": rs, "inplace": True}
                  for f in range(len(RR_LISTS)) for rs in (False, True)]
        units += [{"first": f, "depth": depth - 1, "random_start": rs, "family": 1, "inplace": ip}
                  for f in range(len(RR_LISTS_SAMELEN)) for rs in (False, True) for ip in (False, True)]
        if tier == "thorough":
            units += [{"first": f, "depth": 12, "random_start": False} for f in range(len(RR_LISTS))]
        st = enum.run_units("checks.C18:rr_unit", units, seed)
        enum.fold(rep, "round-robin-histories", st)
    if "insitu" in (only or ["insitu"]):
        units = [{"partitioner": p, "nparts": n, "batched": b, "meta_order": mo} for p in ("rr", "hashed")
                 for n in (1, 2, 3, 5) for b in (False, True) for mo in ("asc", "reverse", "rotate")]
        # one partition without a leader (listed last, first or in the middle by the broker)
        units += [{"partitioner": p, "nparts": n, "batched": False, "meta_order": mo, "leaderless": ll}
                  for p in ("rr", "hashed") for n in (3, 5) for mo in ("asc", "reverse", "rotate")
                  for ll in (0, 1, n - 1)]
        st = enum.run_units("checks.C18:insitu_unit", units, seed)
        enum.fold(rep, "producer-in-situ", st)
    rep.coverage["rule"] = (
        "hash: every key of length 0..%d over the byte alphabet %s (shorter first) plus 177 long keys (len 9..67) "
        "and 781 text keys, pure_murmur2 and HashedPartitioner.partition compared with Kafka's Utils.murmur2 run on "
        "the JVM; rr: every sequence of partition() calls of the stated depth over the lists %r (and, one step shallower, over the same-length family [[0,1,2],[0,1,3],[0,2,3],[0,1]]) with every pair of "
        "randint answers when randomStart is on, the lists passed as fresh objects and (2 calls shorter) as one list object updated in place; in situ: the real Producer+KafkaClient on the virtual cluster with 1/2/3/5 "
        "partitions listed by the broker in ascending, reverse and rotated order (also with one partition leaderless), batched and unbatched, round-robin (with sends to a second topic interleaved) and hashed.  Distinct non-trivial = distinct (len%%4, first byte, last byte, "
        "hash low bits) classes for keys, distinct histories containing at least one list change for round robin."
        % (maxlen, ALPHA.hex(), RR_LISTS))
    rep.assumptions = [
        "Java compatibility is with Kafka's Utils.murmur2 as transcribed in ref/murmur/KafkaMurmur2.java, validated "
        "on the JVM against Kafka's published unit-test vectors (no Kafka jar is installed)",
        "the optional C extension murmurhash2 is not installed, so the pure-Python path is what ships here",
        "key space bounded as stated; round-robin histories bounded in depth"]
    return rep
