"""C03 -- commits never run ahead of successfully processed messages.

Deviation-bounded stateless DFS over the real Consumer (with a consumer group)
+ KafkaClient on the virtual cluster; process death (`crash`) is an event that
can be injected at every state and is followed by a fresh client and consumer
started from the committed position.
"""
import itertools

from checks import _dfs

PROPERTY = "C03"
SPEC = "harness.consumer:ConsumerWorld"
replay = _dfs.replay

CLUSTER = {"brokers": [1, 2], "topics": {"t": {"0": 1}}, "coordinator": 2}
LOG = [["base", 100], ["p", "k0", "v0"], ["p", "k1", "v1"], ["p", "k2", "v2"], ["p", "k3", "v3"], ["p", "k4", "v4"]]
COMMIT_ERRS = [7, 14, 15, 16, 22, 25]
MENU = {"err": {"8": COMMIT_ERRS, "1": [6]}, "silent": True, "drop": True, "timer_early": True, "proc_early": True,
        "proc_fail": True, "app_early": True, "crash": 1, "corrupt": [1, 2]}
MENU_NOCRASH = dict(MENU, crash=0)


def configs(tier):
    out = []
    for n, ms, proc, script in itertools.product(
            [0, 1, 2], [0, 1000], ["sync", "async"],
            [[["start"]],
             [["start"], ["commit", {"delivered": 2}], ["commit", {"delivered": 4}]],
             [["start"], ["commit", {"delivered": 2}], ["shutdown", {"delivered": 4}]],
             [["start"], ["stop", {"delivered": 3}]]]):
        if n == 0 and ms == 0 and len(script) == 1:
            continue
        cfg = {"cluster": CLUSTER, "discovery": False, "log": LOG, "magic": 0, "start": "committed", "stored": 100,
               "group": True, "processor": proc,
               "consumer": {"buffer_size": 75, "auto_commit_every_n": n, "auto_commit_every_ms": ms},
               "script": script, "menu": MENU, "timeout_ms": 2000, "horizon_s": 120}
        out.append(cfg)
    return out


LOG0 = [["p", "k0", "v0"], ["p", "k1", "v1"], ["p", "k2", "v2"], ["p", "k3", "v3"]]
LOGW = [["p", "k0", "v0"], ["w", 1, [["a", "w1"], ["b", "w2"], ["c", "w3"]]], ["p", "k4", "v4"],
        ["w", 2, [["d", "w5"], ["e", "w6"]]]]


def resume_configs(tier):
    """Restart from every committed position of small logs (offset 0, inside/at the edges of compressed wrappers),
    in both message formats, with a crash allowed at any point."""
    out = []
    for log, magic in itertools.product([LOG0, LOGW], [0, 1]):
        nleaves = 4 if log is LOG0 else 7
        for stored in [None] + list(range(0, nleaves)):
            cfg = {"cluster": CLUSTER, "discovery": magic == 1, "log": log, "magic": magic, "start": "committed",
                   "group": True, "processor": "sync",
                   "consumer": {"buffer_size": 200, "auto_commit_every_n": 2, "auto_commit_every_ms": 0},
                   "script": [["start"]], "menu": {"crash": 1, "err": {"9": [14]}, "drop": True},
                   "timeout_ms": 2000, "horizon_s": 120}
            if stored is not None:
                cfg["stored"] = stored
            out.append(cfg)
    # a compacted wrapper (inner offsets with holes) at base 50: positions before, inside and after the holes
    logwg = [["base", 50], ["wgap", 1, [["a", "w0"], ["b", "w3"], ["c", "w4"]], [0, 3, 4]], ["p", "k5", "v5"],
             ["p", "k6", "v6"]]
    for magic, stored in itertools.product([0, 1], [None, 50, 51, 53, 54, 55]):
        cfg = {"cluster": CLUSTER, "discovery": magic == 1, "log": logwg, "magic": magic, "start": "committed",
               "group": True, "processor": "sync",
               "consumer": {"buffer_size": 300, "auto_commit_every_n": 1, "auto_commit_every_ms": 0},
               "script": [["start"]], "menu": {"crash": 1, "err": {"9": [14]}, "drop": True},
               "timeout_ms": 2000, "horizon_s": 120}
        if stored is not None:
            cfg["stored"] = stored
        out.append(cfg)
    return out


def failing_processor_configs(tier):
    out = []
    for n, proc in itertools.product([1, 2], ["sync"]):
        for k in (0, 1):
            out.append({"cluster": CLUSTER, "discovery": False, "log": LOG, "magic": 0, "start": "earliest",
                        "group": True, "processor": proc, "fail_at": [k], "expect_start_failure": True,
                        "consumer": {"buffer_size": 75, "auto_commit_every_n": n, "auto_commit_every_ms": 0},
                        "script": [["start"]], "menu": {"timer_early": True}, "timeout_ms": 2000, "horizon_s": 60})
    return out


RULE = ("real Consumer (consumer group g) + KafkaClient; log of 5 messages at base offset 100, stored offset 100, fetch "
        "buffer 75 bytes (one or two messages per fetch); auto_commit_every_n {0,1,2} x auto_commit_every_ms "
        "{0,1000} x processor {sync, async}; scripts with manual commit(), shutdown() and stop() at chosen delivery "
        "counts.  Alphabet: correct reply, OffsetCommit error {7,14,15,16,22,25}, fetch error 6, silent broker, drop, "
        "timer before I/O, processor completion (ok / FAILED) before or after I/O, early application call, and process "
        "death at any state (all client objects abandoned, new KafkaClient + Consumer started at OFFSET_COMMITTED). "
        "Oracle: every commit handed to the client carries last_processed_offset; every delivered offset <= the "
        "committed value has completed processing successfully; one commit outstanding; last_committed_offset only "
        "holds acknowledged/reported values; in every state (= every possible crash point) the offset stored at the "
        "coordinator does not cover an unprocessed delivered message; after a restart the first fetch is at stored+1 "
        "and delivery continues with the first log entry after it.")
ASSUME = ["SimCluster coordinator (unmanaged group: generation -1) stores what OffsetCommit v1 carries",
          "the application model is permissive: it keeps consuming after the start Deferred fails (API-legal)"]


def run(tier, seed, only=None):
    if tier == "quick":
        plans = [("commit-configs-2dev", configs(tier), (1, 1, 2)),
                 ("resume-from-committed", resume_configs(tier), (1, 0, 1)),
                 ("failing-processor", failing_processor_configs(tier), (0, 1, 1))]
    else:
        plans = [("commit-configs-3dev", configs(tier), (2, 1, 3)),
                 ("resume-from-committed", resume_configs(tier), (2, 1, 2)),
                 ("failing-processor", failing_processor_configs(tier), (1, 1, 2))]
    if only:
        plans = [p for p in plans if p[0] in only]
    return _dfs.run_plans(PROPERTY, SPEC, plans, seed, RULE, ASSUME, max_steps=400)
