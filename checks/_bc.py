"""Shared driver for the broker-connection harness (C06, C10)."""
from mc import explore
from mc.runner import Report

SPEC = "harness.brokerclient:BrokerClientHarness"


def run_bfs(prop, plans, seed, rule, assumptions):
    rep = Report(prop, "model_checking")
    for name, cfg, depth in plans:
        cfg = dict(cfg, prop=prop)
        st = explore.bfs(SPEC, cfg, depth, seed=seed)
        rep.add_stats(name, st)
        rep.notes.append("%s: BFS depth %d completed (%d distinct states, %d edges)" % (
            name, st.max_len, st.nodes, st.by_devs.get("edges", 0)))
    rep.coverage["rule"] = rule
    from mc import scan
    rep.assumptions = list(assumptions) + [scan.audit()[1]]
    return rep


def replay(v):
    from mc import bootstrap
    bootstrap.init()
    factory = explore.load_factory(v["harness"])
    h = factory(v["cfg"])
    for lab in v["labels"]:
        h.apply(lab)
    h.finish(False)
    return [dict(x.as_dict(), cfg=v["cfg"], labels=v["labels"], harness=v["harness"]) for x in h.violations]
