"""C08 -- cached cluster metadata mirrors the broker's answer and self-heals when stale.

Part "histories": every sequence (<= 3 quick / 4 thorough steps) of cluster
changes each followed by a partial or full metadata load on the real KafkaClient,
the public view compared with the response after every answer.
Part "self-heal": the real Producer and Consumer running while leader moves,
broker restarts and address changes are injected at every point.
"""
import itertools

from checks import _dfs
from mc.runner import Report

PROPERTY = "C08"
replay = _dfs.replay

CLUSTER = {"brokers": [1, 2, 3], "topics": {"t": {"0": 1, "1": 2}, "u": {"0": 3}}}

CHANGES = [
    None,
    ["cluster", "move", "t", 0, 2],
    ["cluster", "move", "t", 1, -1],
    ["cluster", "topic_error", "t", 5],
    ["cluster", "topic_error", "t", None],
    ["cluster", "remove_partition", "t", 1],
    ["cluster", "add_partition", "t", 2, 3],
    ["cluster", "remove_topic", "u"],
    ["cluster", "add_partition", "w", 0, 1],
    ["cluster", "remove_broker", 3],
    ["cluster", "readdress", 2, "kafka2b", 9999],
    ["cluster", "readdress", 1, "kafka1", 9991],
    ["cluster", "add_broker", 4],
]
LOADS = [["t"], ["u"], ["t", "u", "w"], []]


def history_configs(tier):
    depth = 3 if tier == "quick" else 4
    out = []
    steps = [(c, l) for c in CHANGES for l in LOADS]
    if tier == "quick":
        first = steps
        rest = [(c, l) for c in CHANGES for l in (["t"], [])]
    else:
        first = rest = steps
    def scripts(d):
        if d == 1:
            for s in first:
                yield [s]
        else:
            for pre in scripts(d - 1):
                for s in rest:
                    yield pre + [s]
    for d in range(1, depth + 1):
        pool = [(c, l) for c in CHANGES[1:] for l in ([],)]
        if tier == "quick" and d == 3:
            gen = ([a, b2, c3] for a in first[::2] for b2 in pool for c3 in [(None, ["t", "u", "w"])])
        elif d == 4:
            # depth 4 is thinned (the full product has 7.3 million histories): every first step, two changes each
            # followed by a full refresh, then a load of everything
            gen = ([a, b2, b3, c4] for a in first[::2] for b2 in pool for b3 in pool
                   for c4 in [(None, ["t", "u", "w"])])
        else:
            gen = scripts(d)
        for hist in gen:
            script = []
            for change, load in hist:
                if change is not None:
                    script.append(change)
                script.append(["call", "metadata", load])
            # a produce at the end exercises the routing table built by the history
            script.append(["call", "produce", [["t", 0, ["x"]]], {"foe": False}])
            out.append({"cluster": CLUSTER, "discovery": False, "timeout_ms": 2000, "warm": [["t", "u"], []],
                        "warm_connect": True, "script": script, "menu": {}, "watch_topics": ["t", "u", "w"]})
    # the cluster loses all its topics, then a broker: a full refresh that lists brokers but no topic at all
    for first in ("t", "u"):
        other = "u" if first == "t" else "t"
        for victim in (1, 2, 3):
            script = [["cluster", "remove_topic", first], ["call", "metadata", []],
                      ["cluster", "remove_topic", other], ["cluster", "remove_broker", victim],
                      ["call", "metadata", []], ["call", "metadata", []]]
            out.append({"cluster": CLUSTER, "discovery": False, "timeout_ms": 2000, "warm": [["t", "u"], []],
                        "warm_connect": True, "script": script, "menu": {}, "watch_topics": ["t", "u", "w"],
                        "expect_failure": True})
    return out


PCLUSTER = {"brokers": [1, 2], "topics": {"t": {"0": 1, "1": 2}, "u": {"0": 1}}, "coordinator": 2}
# (broker 1 moves to another port of the same host; the consumer configurations move it to another host)
EVENTS = [["move", "t", 0, 2], ["move", "t", 1, 1], ["restart", 1], ["restart", 2], ["readdress", 1, "kafka1", 9993]]


def producer_configs(tier):
    out = []
    for batched, attempts in itertools.product([False, True], [4]):
        prod = {"acks": 1, "max_req_attempts": attempts, "retry_interval": 0.25}
        if batched:
            prod.update(batch_send=True, batch_every_n=2, batch_every_b=0, batch_every_t=0)
        out.append({"cluster": PCLUSTER, "discovery": False, "producer": prod, "timeout_ms": 2000,
                    "script": [["send", "t", None, ["a0"]], ["send", "t", None, ["b0"]], ["send", "u", None, ["c0"]],
                               ["send", "t", None, ["d0"]], ["wait", 40.0], ["send", "t", None, ["y0"]],
                               ["send", "t", None, ["y1"]], ["send", "u", None, ["y2"]], ["send", "u", None, ["y3"]]],
                    "menu": {"cluster_events": EVENTS, "timer_early": True}})
    return out


def dead_broker_configs(tier):
    """A broker dies for good (port closed) and its partitions move; also without acknowledgements, where only a
    send that could not be handed to a connection tells the client that its routing is stale."""
    out = []
    for acks, batched in itertools.product([1, 0], [False, True]):
        prod = {"acks": acks, "max_req_attempts": 4, "retry_interval": 0.25}
        if batched:
            prod.update(batch_send=True, batch_every_n=2, batch_every_b=0, batch_every_t=0)
        out.append({"cluster": PCLUSTER, "discovery": False, "producer": prod, "timeout_ms": 2000,
                    "script": [["send", "t", None, ["a0"]], ["send", "t", None, ["b0"]], ["send", "u", None, ["c0"]],
                               ["send", "t", None, ["d0"]], ["wait", 40.0], ["send", "u", None, ["e0"]],
                               ["send", "t", None, ["f0"]]],
                    "menu": {"cluster_events": [["kill", 1, 2], ["move", "t", 1, 1]], "timer_early": True}})
    return out


def consumer_configs(tier):
    out = []
    ccl = {"brokers": [1, 2], "topics": {"t": {"0": 1}}}
    log = [["p", "k0", "v0"], ["p", "k1", "v1"], ["p", "k2", "v2"], ["p", "k3", "v3"], ["p", "k4", "v4"]]
    evs = [["move", "t", 0, 2], ["restart", 1], ["readdress", 1, "kafka1b", 9993], ["move", "t", 0, 1],
           ["restart", 2]]
    for proc in ("sync", "async"):
        out.append({"cluster": ccl, "discovery": False, "log": log, "magic": 0, "start": "earliest",
                    "consumer": {"buffer_size": 75}, "processor": proc, "script": [["start"]],
                    "menu": {"cluster_events": evs, "timer_early": True}, "timeout_ms": 2000, "horizon_s": 300})
    return out


RULE = ("histories: every sequence of <=3 (quick, thinned at depth 3) / <=4 (thorough, thinned at depth 4) steps, each a cluster change "
        "from {leader moves, partition loses its leader, topic error 5 / cleared, partition removed / added, topic "
        "removed / new topic, broker removed / re-addressed (new host and port, or a new port on the same host) / added, no change} followed by a metadata load of {t}, "
        "{u}, {t,u,w} or all topics, on a warmed-up 3-broker client; after every answer the public view of covered "
        "topics (topic_partitions, topics_to_brokers, metadata_error_for_topic, partition_fully_replicated) must "
        "equal the response, other topics must be unchanged, vanished partitions must not look alive, a full refresh "
        "closes connections to missing brokers, new connections use the latest address.  self-heal: producer (4 "
        "sends, batched/unbatched, 4 attempts) and consumer (5-message log) with every sequence of <=2 (<=3 for the thorough consumer part) "
        "(thorough) events from {leader moves, broker restarts, address change, a broker dying for good with its "
        "partitions moving; acks 1 and 0} injected at every point: a request to a partition whose routing was "
        "invalidated (error 3/6, or a produce call none of whose payloads reached a connection) is preceded by a "
        "metadata request; once faults "
        "cease every send is acknowledged by the current leader and the consumer reaches the log end.")
ASSUME = ["SimCluster's Metadata v0 answers are the ground truth of 'what the response said'", "small scope"]


def run(tier, seed, only=None):
    rep = Report(PROPERTY, "model_checking")
    parts = only or ["histories", "self-heal"]
    if "histories" in parts:
        _dfs.run_plans(PROPERTY, "harness.client:ApiWorld", [("metadata-histories", history_configs(tier), (0, 0, 0))],
                       seed, RULE, ASSUME, rep=rep)
    if "self-heal" in parts:
        b = (2, 1, 3) if tier == "quick" else (3, 1, 4)
        _dfs.run_plans(PROPERTY, "harness.producer:ProducerWorld",
                       [("producer-self-heal", producer_configs(tier), (2, 0, 2) if tier == "quick" else (2, 1, 3)),
                        ("producer-dead-broker", dead_broker_configs(tier), (1, 1, 2) if tier == "quick" else (2, 0, 2))],
                       seed, RULE, ASSUME, rep=rep)
        _dfs.run_plans(PROPERTY, "harness.consumer:ConsumerWorld", [("consumer-self-heal", consumer_configs(tier), b)],
                       seed, RULE, ASSUME, rep=rep, max_steps=400)
    return rep
