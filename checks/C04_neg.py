"""C04, part "negotiation": version discovery on the real client against brokers
advertising every version table of a small family, and against brokers that do
not implement ApiVersions (close / stay silent), with the first produce / fetch
issued before, during and after discovery."""
import itertools

from checks import _dfs


def table(pmax, fmax):
    return [[0, 0, pmax], [1, 0, fmax], [2, 0, 5], [3, 0, 8], [8, 0, 7], [9, 0, 5], [10, 0, 2], [11, 0, 5],
            [12, 0, 3], [13, 0, 3], [14, 0, 3], [18, 0, 3]]


def broker_kinds():
    out = [("legacy-close", "legacy-close"), ("legacy-silent", "legacy-silent")]
    for pmax, fmax in itertools.product([2, 3, 7, 9], [2, 4, 11]):
        out.append(("p%d-f%d" % (pmax, fmax), table(pmax, fmax)))
    return out


def producer_configs(tier):
    out = []
    for (name, ver), codec, batched in itertools.product(broker_kinds(), [None, 1], [False, True]):
        prod = {"acks": 1, "max_req_attempts": 3, "codec": codec}
        if batched:
            prod.update(batch_send=True, batch_every_n=2, batch_every_b=0, batch_every_t=0)
        cl = {"brokers": {"1": ver, "2": ver}, "topics": {"t": {"0": 1, "1": 2}}}
        out.append({"cluster": cl, "discovery": True, "producer": prod, "timeout_ms": 2000,
                    "script": [["send", "t", "k", ["a0"]], ["send", "t", None, ["b0", "b1"]],
                               ["send", "t", None, ["c0"]]],
                    "menu": {"app_early": True, "timer_early": True, "silent": name.startswith("p"),
                             "err": {"18": [35]} if name.startswith("p") else {}}})
    # client ids at the boundaries of "empty / absent / unicode" through the real client (every request of the run)
    base = [c for c in out if c["cluster"]["brokers"]["1"] in ("legacy-close",) or
            c["cluster"]["brokers"]["1"] == table(3, 4)][::2]
    for cfg, cid in itertools.product(base, ["", "cl\u00efent-\u00e9\u20ac", None, "x" * 300]):
        out.append(dict(cfg, client_id=cid))
    return out


def consumer_configs(tier):
    out = []
    log = [["base", 10], ["p", "k0", "v0"], ["w", 1, [["a", "w1"], ["b", "w2"]]], ["p", "k3", "v3"]]
    for (name, ver), magic in itertools.product(broker_kinds(), [0, 1]):
        if isinstance(ver, str) and magic == 1:
            continue  # a pre-0.10 broker stores format 0 only
        cl = {"brokers": {"1": ver}, "topics": {"t": {"0": 1}}}
        out.append({"cluster": cl, "discovery": True, "log": log, "magic": magic, "start": "earliest",
                    "consumer": {"buffer_size": 200}, "processor": "sync", "script": [["start"]],
                    "menu": {"timer_early": True, "silent": name.startswith("p"),
                             "err": {"18": [35]} if name.startswith("p") else {}},
                    "timeout_ms": 2000, "horizon_s": 200})
    for cfg, cid in itertools.product([out[0], out[-1]], ["", "cl\u00efent-\u00e9\u20ac", None]):
        out.append(dict(cfg, client_id=cid))
    return out


def group_configs(tier):
    """The group protocol in situ: join, sync, heartbeat, commit, offset fetch, leave and the rejoin after every
    error answer, all parsed strictly."""
    cl = {"brokers": [1, 2], "topics": {"t": {"0": 1, "1": 2}}, "coordinator": 2}
    errs = {"11": [15, 25, 27], "14": [22, 25, 27, 16], "12": [22, 25, 27, 16, 24], "8": [22, 25, 27], "10": [15],
            "9": [14, 16]}
    out = []
    for leader, phantom, cid in (("real", False, "verif"), ("phantom", True, ""), ("real", True, None)):
        out.append({"cluster": cl, "discovery": False, "timeout_ms": 5000, "topics": ["t"], "client_id": cid,
                    "logs": {"t/0": 2, "t/1": 1},
                    "group": {"leader": leader, "phantom_topics": ["t"], "phantom_active": phantom},
                    "processor": "sync", "commit_every_n": 1, "script": [["start"], ["stop", {"consumed": True}]],
                    "menu": {"err": errs, "timer_early": True, "app_early": True,
                             "cluster_events": [["phantom_joins", "grp"], ["evict", "grp"]]}, "horizon_s": 400})
    return out


def run_into(rep, tier, seed):
    b = (1, 1, 2) if tier == "quick" else (2, 2, 3)
    rule = rep.coverage.get("rule", "")
    _dfs.run_plans("C04", "harness.producer:ProducerWorld", [("negotiation-producer", producer_configs(tier), b)],
                   seed, rule, rep.assumptions, rep=rep)
    _dfs.run_plans("C04", "harness.consumer:ConsumerWorld", [("negotiation-consumer", consumer_configs(tier), b)],
                   seed, rule, rep.assumptions, rep=rep, max_steps=400)
    _dfs.run_plans("C04", "harness.group:GroupWorld", [("group-protocol-in-situ", group_configs(tier), b)],
                   seed, rule, rep.assumptions, rep=rep, max_steps=500)
    rep.level = "exploration"
    rep.coverage["negotiation_rule"] = (
        "real Producer/Consumer + KafkaClient with discovery enabled against brokers advertising produce max "
        "{2,3,7,9} x fetch max {2,4,11} (ascending tables, minimum 0) and brokers that close the connection or stay "
        "silent on ApiVersions, with client ids {ascii, empty, non-ASCII, absent (documented default), 300 chars}; sends/fetches issued before, during and after discovery (early application calls, "
        "timers overtaking I/O, ApiVersions answered with error 35 or swallowed).  Every request on the wire must "
        "parse strictly (message format allowed by the Produce version), the produce/fetch version must be "
        "advertised and implemented (0 or 2), version 0 when discovery failed, and without faults every send "
        "succeeds / every message is delivered (the reply was decoded with the matching layout).  group-protocol-in-"
        "situ: the real ConsumerGroup against the simulated coordinator with error answers {15,16,22,24,25,27} on the "
        "group requests, eviction and rebalance; every JoinGroup / SyncGroup / Heartbeat / LeaveGroup / OffsetCommit "
        "/ OffsetFetch request on the wire must parse strictly (non-nullable strings, lengths) and carry the "
        "configured client id.")


def replay(v):
    return _dfs.replay(v)
