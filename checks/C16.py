"""C16 -- generation fencing: no partition consumer outlives its group generation.

Deviation-bounded stateless DFS over the real ConsumerGroup + KafkaClient with
the simulated group coordinator (one real member plus a phantom member).
"""
import itertools

from checks import _dfs

PROPERTY = "C16"
SPEC = "harness.group:GroupWorld"
replay = _dfs.replay

CLUSTER = {"brokers": [1, 2], "topics": {"t": {"0": 1, "1": 2}}, "coordinator": 2}
ERRS = {"11": [15, 25, 27, 14], "14": [22, 25, 27, 16, 14], "12": [22, 25, 27, 16, 14], "8": [22, 25, 27, 14],
        "10": [15], "13": [25], "9": [14, 16, 15]}
EVENTS = [["phantom_joins", "grp"], ["phantom_leaves", "grp"], ["evict", "grp"], ["coordinator", "grp", 1],
          ["append", "t", 0, "late"]]
MENU = {"err": ERRS, "silent": True, "drop": True, "timer_early": True, "proc_early": True, "app_early": True,
        "cluster_events": EVENTS}
MENU_LIGHT = {"err": {"12": [27, 25], "14": [27], "8": [22]}, "timer_early": True, "proc_early": True,
              "app_early": True, "cluster_events": EVENTS[:3]}


def configs(tier, menu):
    out = []
    for leader, phantom, proc, n in itertools.product(["real", "phantom"], [False, True], ["sync", "async"], [1, 0]):
        if leader == "phantom" and not phantom:
            continue
        grp = {"leader": leader, "phantom_topics": ["t"], "phantom_active": phantom}
        out.append({"cluster": CLUSTER, "discovery": False, "timeout_ms": 5000, "topics": ["t"],
                    "logs": {"t/0": 2, "t/1": 1}, "group": grp, "processor": proc, "commit_every_n": n,
                    "script": [["start"], ["stop", {"consumed": True}]], "menu": menu, "horizon_s": 400})
    if menu is MENU:
        # the group has committed positions from an earlier life (every consumer must start right after them)
        out.append({"cluster": CLUSTER, "discovery": False, "timeout_ms": 5000, "topics": ["t"],
                    "logs": {"t/0": 4, "t/1": 3}, "stored": {"t/0": 1, "t/1": 0},
                    "group": {"leader": "real", "phantom_topics": ["t"], "phantom_active": False},
                    "processor": "sync", "commit_every_n": 1,
                    "script": [["start"], ["stop", {"consumed": True}]], "menu": menu, "horizon_s": 400})
        # heartbeat ticks inside the backoff window of a pending rejoin
        out.append({"cluster": CLUSTER, "discovery": False, "timeout_ms": 5000, "topics": ["t"],
                    "logs": {"t/0": 2, "t/1": 1}, "group": {"leader": "real"}, "processor": "sync",
                    "commit_every_n": 1, "backoffs": {"retry": 3000, "heartbeat": 1000},
                    "script": [["start"], ["stop", {"consumed": True, "time": 9.0}]],
                    "menu": {"err": {"8": [22], "12": [27]}, "cluster_events": [["append", "t", 0, "late"]],
                             "timer_early": True}, "horizon_s": 400})
        # a rebalance arrives while an automatic commit is in flight and more has been processed since
        out.append({"cluster": dict(CLUSTER, modes=[{"api": 12, "err": 27, "budget": 1},
                                                     {"api": 8, "delay": 1.5, "budget": 1}],
                                    topics={"t": {"0": 1, "1": 1}}), "discovery": False,
                    "timeout_ms": 5000, "topics": ["t"], "logs": {"t/0": 0, "t/1": 0}, "group": {"leader": "real"},
                    "processor": "sync", "commit_every_n": 1,
                    "script": [["start"], ["append", "t/0", ["n1", "n2"], {"time": 2.0}],
                               ["stop", {"consumed": True, "time": 9.0}]],
                    "menu": {"timer_early": True}, "horizon_s": 400})
        out.append({"cluster": dict(CLUSTER, modes=[{"api": 12, "err": 27, "budget": 1}]), "discovery": False,
                    "timeout_ms": 5000, "topics": ["t"], "logs": {"t/0": 1, "t/1": 1}, "group": {"leader": "real"},
                    "processor": "sync", "commit_every_n": 1,
                    "script": [["start"], ["append", "t/0", ["n1", "n2"], {"time": 2.0}],
                               ["stop", {"consumed": True, "time": 8.0}]],
                    "menu": {"timer_early": True}, "horizon_s": 400})
        # the application calls stop() from inside the processor (first or second invocation)
        for k, n in itertools.product((0, 1), (1, 0)):
            out.append({"cluster": CLUSTER, "discovery": False, "timeout_ms": 5000, "topics": ["t"],
                        "logs": {"t/0": 2, "t/1": 1}, "group": {"leader": "real"}, "processor": "sync",
                        "commit_every_n": n, "stop_in_processor": k, "script": [["start"]],
                        "menu": {"timer_early": True, "err": {"8": [22]}}, "horizon_s": 400})
        # a coordinator that holds the JoinGroup for 25 s (rebalance in progress, inside the join's own 35 s bound
        # but well beyond the client's 5 s request timeout)
        out.append({"cluster": dict(CLUSTER, modes=[{"api": 11, "delay": 25.0, "budget": 1}]), "discovery": False,
                    "timeout_ms": 5000, "topics": ["t"], "logs": {"t/0": 1, "t/1": 1}, "group": {"leader": "real"},
                    "processor": "sync", "commit_every_n": 1,
                    "script": [["start"], ["stop", {"consumed": True, "time": 45.0}]],
                    "menu": {"timer_early": True}, "horizon_s": 400})
    return out


RULE = ("real ConsumerGroup + KafkaClient, 2 brokers, topic t with 2 partitions, coordinator on broker 2; the group has "
        "the member under test plus an optional phantom member (present from the start or joining/leaving as a "
        "cluster event), leader either of them; processor sync/async; auto-commit by count or off; script start, "
        "consume everything, stop (stop may be issued early at every state, or from inside the processor).  Deviations: error codes on JoinGroup "
        "{14,15,25,27}, SyncGroup {14,16,22,25,27}, Heartbeat {14,16,22,25,27}, OffsetCommit {14,22,25,27}, "
        "OffsetFetch {14,15,16}, FindCoordinator {15}, LeaveGroup {25}; positions committed in an earlier life of the "
        "group; silent broker (-> timeout), drop, phantom joins / leaves, eviction, coordinator "
        "move, late append; timers and processor completions overtaking I/O.  Wire-level oracle per member: commits "
        "carry the generation/member of the latest successful join and a partition of the latest successful sync; "
        "fetches and processor calls only for assigned partitions while stable; after a JoinGroup is written no "
        "OffsetCommit is written and no commit or processor call of the old generation is still pending; none "
        "after an eviction answer until the rejoin; one join/sync exchange in flight; heartbeats only while stable "
        "with current ids; every new consumer's first fetch is at the group's committed offset + 1; after stop() "
        "only the leave (and the graceful commits) are written, and after its Deferred fires nothing (timers left "
        "behind are run: they may not write anything).")
ASSUME = ["SimGroup (ref/simgroup.py) is the coordinator: one real member + phantom, generation bump per join",
          "small scope"]


def run(tier, seed, only=None):
    if tier == "quick":
        plans = [("group-1dev", configs(tier, MENU), (1, 1, 1)),
                 ("group-2dev-light", [configs(tier, MENU_LIGHT)[i] for i in (1, 10)], (1, 1, 2))]
    else:
        plans = [("group-2dev", configs(tier, MENU), (1, 1, 2)),
                 ("group-3dev-light", configs(tier, MENU_LIGHT), (2, 1, 3))]
    # the two scripted scenarios (heartbeat inside a rejoin backoff; rebalance while a commit is in flight) get a
    # deeper schedule bound of their own
    scripted = [dict(c, menu=dict(c["menu"], err={"12": [27], "8": [22]})) for c in configs(tier, MENU)[-8:-5]]
    plans.append(("scripted-rebalance-timing", scripted, (1, 2, 3) if tier == "quick" else (2, 2, 4)))
    plans.append(("slow-join", configs(tier, MENU)[-1:], (0, 1, 1) if tier == "quick" else (1, 1, 2)))
    if only:
        plans = [p for p in plans if p[0] in only]
    return _dfs.run_plans(PROPERTY, SPEC, plans, seed, RULE, ASSUME, max_steps=500)
