"""C15 -- group assignment gives every partition to exactly one subscribed member.

Bounded-exhaustive enumeration through the real leader path:
  JoinGroup response (encoded by refkafka) -> KafkaCodec.decode_join_group_response
  -> _ConsumerProtocol.generate_assignments -> KafkaCodec.encode_sync_group_request
  -> (refkafka strict parse = what the coordinator stores) -> per member SyncGroup
  response (refkafka) -> decode_sync_group_response -> decode_assignment.
"""
import itertools

from mc import enum
from mc.explore import _digest
from mc.runner import Report
from ref import refkafka as rk

PROPERTY = "C15"
IDS = ["a", "b", "m-10", "m-9"]
TOPICS = ["t1", "t2", "u"]
PARTS = [[], [0], [0, 1], [0, 1, 2], [1, 5, 9]]


def _subsets(topics):
    out = []
    for r in range(1, len(topics) + 1):
        out.extend(itertools.combinations(topics, r))
    return out


def units(tier):
    sizes = (1, 2, 3) if tier == "quick" else (1, 2, 3, 4)
    us = []
    for n in sizes:
        for ids in itertools.combinations(IDS, n):
            ntopics = 3 if n <= 3 else 2
            topics = TOPICS[:ntopics]
            # one unit per (member set, first member's subscription) keeps units balanced
            for first_sub in _subsets(topics):
                us.append({"ids": list(ids), "topics": topics, "first_sub": list(first_sub)})
    return us


def _leader_path(protocol, KafkaCodec, order, subs, tparts):
    """Run the real code for one member order; returns {member: {topic: [partitions]}}"""
    members = [{"member": m, "metadata": rk.SUBSCRIPTION.enc({"version": 0, "topics": list(subs[m]),
                                                               "user_data": b""})} for m in order]
    jr = rk.encode_response(rk.JOIN_GROUP, 0, 7, {"error": 0, "generation": 3, "protocol": "consumer",
                                                  "leader": order[0], "member": order[0], "members": members})
    resp = KafkaCodec.decode_join_group_response(jr)
    assert [m.member_id for m in resp.members] == list(order)
    encoded = protocol.generate_assignments(resp.members, topic_partitions=tparts)
    from afkak.common import _SyncGroupRequest
    req = KafkaCodec.encode_sync_group_request(b"cid", 9, _SyncGroupRequest("g", 3, order[0], encoded))
    parsed = rk.parse_request(req)["body"]["assignments"]
    got = {}
    seen_members = []
    for a in parsed:
        seen_members.append(a["member"])
        # what the coordinator would hand to that member
        sr = rk.encode_response(rk.SYNC_GROUP, 0, 11, {"error": 0, "assignment": a["assignment"]})
        dec = KafkaCodec.decode_sync_group_response(sr)
        mine = protocol.decode_assignment(dec.member_assignment)
        ref = rk.ASSIGNMENT.dec(rk.Reader(a["assignment"]))
        ref_map = {t["topic"]: list(t["partitions"]) for t in ref["topics"]}
        got[a["member"]] = ({t: list(p) for t, p in mine.items()}, ref_map)
    return got, seen_members


def enumerate_unit(u):
    from afkak._group import _ConsumerProtocol, _NeedTopicPartitions
    from afkak.kafkacodec import KafkaCodec

    st = enum.EnumStats()
    protocol = _ConsumerProtocol()
    ids = u["ids"]
    topics = u["topics"]
    subsets = _subsets(topics)
    rest = ids[1:]

    def viol(oracle, sig, msg, case):
        st.violations.append({"oracle": oracle, "signature": sig, "message": msg, "input": case,
                              "check": "checks.C15:replay_case"})

    for rest_subs in itertools.product(subsets, repeat=len(rest)):
        subs = {ids[0]: tuple(u["first_sub"])}
        for m, s in zip(rest, rest_subs):
            subs[m] = s
        subscribed = sorted(set(t for s in subs.values() for t in s))
        for parts in itertools.product(range(len(PARTS)), repeat=len(subscribed)):
            tparts = {t: list(PARTS[i]) for t, i in zip(subscribed, parts)}
            case = {"subs": {m: list(s) for m, s in subs.items()}, "partitions": tparts}
            results = {}
            for order in itertools.permutations(ids):
                st.evaluations += 1
                c = dict(case, order=list(order))
                try:
                    got, seen = _leader_path(protocol, KafkaCodec, order, subs, tparts)
                except Exception as e:
                    viol("assignment-raises", "C15:leader-path-raises:%s" % type(e).__name__,
                         "leader path raised %r for %r" % (e, c), c)
                    continue
                if sorted(seen) != sorted(ids):
                    viol("assignment-members", "C15:sync-request-members",
                         "sync request names members %r, group is %r" % (seen, ids), c)
                # 4. each member decodes exactly what the leader encoded for it
                assign = {}
                for m, (mine, ref_map) in got.items():
                    if {t: p for t, p in mine.items() if p} != {t: p for t, p in ref_map.items() if p}:
                        viol("assignment-decode", "C15:member-decodes-other-than-encoded",
                             "member %s decodes %r, leader encoded %r (%r)" % (m, mine, ref_map, c), c)
                    assign[m] = {t: sorted(p) for t, p in mine.items() if p}
                # 1. exactly once, only to subscribers
                owners = {}
                for m, tp in assign.items():
                    for t, ps in tp.items():
                        for p in ps:
                            owners.setdefault((t, p), []).append(m)
                            if t not in subs[m]:
                                viol("assignment-unsubscribed", "C15:partition-to-non-subscriber",
                                     "%s/%d assigned to %s which did not subscribe (%r)" % (t, p, m, c), c)
                for t in subscribed:
                    for p in tparts[t]:
                        o = owners.get((t, p), [])
                        if len(o) != 1:
                            viol("assignment-exactly-once", "C15:partition-owned-by-%s" % (
                                "nobody" if not o else "several"),
                                "%s/%d owned by %r (%r)" % (t, p, o, c), c)
                extra = set(owners) - set((t, p) for t in subscribed for p in tparts[t])
                if extra:
                    viol("assignment-phantom", "C15:phantom-partition", "assigned unknown %r (%r)" % (extra, c), c)
                # 2. balance when subscriptions are identical
                if len(set(tuple(sorted(s)) for s in subs.values())) == 1:
                    sizes = [sum(len(ps) for ps in assign.get(m, {}).values()) for m in ids]
                    if max(sizes) - min(sizes) > 1:
                        viol("assignment-balance", "C15:unbalanced-identical-subscriptions",
                             "sizes %r (%r)" % (sizes, c), c)
                results[order] = assign
            # 3. invariance under member order
            if len(set(repr(sorted(r.items())) for r in results.values())) > 1:
                viol("assignment-order", "C15:depends-on-member-order",
                     "different assignments for different member orders: %r" % (
                         {"/".join(o): r for o, r in results.items()},), case)
            npart = sum(len(v) for v in tparts.values())
            if len(ids) > 1 and npart > 1:
                st.classes.add(_digest((sorted(subs.items()), sorted(tparts.items()))))
            if len(st.samples) < 2 and npart >= 3 and len(ids) >= 2:
                st.samples.append(dict(case, result=next(iter(results.values()), None)))
            # the leader asks for partition lists when it has none
            st.evaluations += 1
            try:
                protocol.generate_assignments(
                    KafkaCodec.decode_join_group_response(rk.encode_response(rk.JOIN_GROUP, 0, 1, {
                        "error": 0, "generation": 1, "protocol": "consumer", "leader": ids[0], "member": ids[0],
                        "members": [{"member": m, "metadata": rk.SUBSCRIPTION.enc(
                            {"version": 0, "topics": list(subs[m]), "user_data": b""})} for m in ids]})).members,
                    topic_partitions={})
            except _NeedTopicPartitions as e:
                if sorted(e.topics) != subscribed:
                    viol("assignment-needs", "C15:need-topic-partitions-wrong-topics",
                         "asked for %r, subscribed %r" % (sorted(e.topics), subscribed), case)
            except Exception as e:
                viol("assignment-needs", "C15:need-topic-partitions-raises:%s" % type(e).__name__,
                     "%r for %r" % (e, case), case)
            else:
                viol("assignment-needs", "C15:no-need-topic-partitions",
                     "assignment without partition lists did not ask for them (%r)" % (case,), case)
    return st


def replay_case(case):
    """Re-run one recorded case; returns list of violation dicts."""
    u = {"ids": sorted(case["subs"]), "topics": TOPICS, "first_sub": None}
    # run the single case by brute force: enumerate the unit that contains it and filter
    ids = case.get("order") or sorted(case["subs"])
    first = sorted(ids)[0]
    st = enumerate_unit({"ids": sorted(ids), "topics": sorted(set(t for s in case["subs"].values() for t in s)
                                                               | set(case["partitions"])),
                         "first_sub": list(case["subs"][first])})
    want_subs = {m: list(s) for m, s in case["subs"].items()}
    return [v for v in st.violations if v["input"].get("subs") == want_subs
            and v["input"].get("partitions") == case["partitions"]]


def replay(v):
    if v.get("harness"):
        from checks import _dfs
        return _dfs.replay(v)
    return replay_case(v["input"])


def insitu_configs(tier):
    """The real ConsumerGroup as group leader over several generations while topics grow."""
    cl = {"brokers": [1, 2], "topics": {"t": {"0": 1, "1": 2}, "u": {"0": 1}}, "coordinator": 2}
    events = [["add_partition", "t", 2, 1], ["add_partition", "u", 1, 2], ["phantom_joins", "grp"],
              ["phantom_leaves", "grp"], ["move", "t", 1, -1]]
    out = []
    for phantom, ptopics in ((False, ["t"]), (True, ["t"]), (True, ["t", "u"]))[::1 if tier != "quick" else 2]:
        out.append({"prop": "C15", "cluster": cl, "discovery": False, "timeout_ms": 5000, "topics": ["t", "u"],
                    "logs": {"t/0": 1, "t/1": 1, "u/0": 1},
                    "group": {"leader": "real", "phantom_topics": ptopics, "phantom_active": phantom},
                    "processor": "sync", "commit_every_n": 1,
                    "script": [["start"], ["stop", {"time": 9.0}]],
                    "menu": {"err": {"12": [27]}, "cluster_events": events, "timer_early": tier != "quick"},
                    "horizon_s": 40})
    # scripted: the topic grows while the member is stable, then the coordinator asks for a rebalance
    out.append({"prop": "C15", "cluster": dict(cl, modes=[{"api": 12, "err": 27, "budget": 1}]), "discovery": False,
                "timeout_ms": 5000, "topics": ["t", "u"], "logs": {"t/0": 1, "t/1": 1, "u/0": 1},
                "group": {"leader": "real", "phantom_topics": ["t"], "phantom_active": True},
                "processor": "sync", "commit_every_n": 1,
                "script": [["start"], ["add_partition", "t", 5, 1, {"time": 1.5}],
                           ["stop", {"time": 9.0}]],
                "menu": {"timer_early": True, "cluster_events": events[1:]}, "horizon_s": 40})
    return out


def run(tier, seed, only=None):
    rep = Report(PROPERTY, "exploration")
    st = enum.run_units("checks.C15:enumerate_unit", units(tier), seed)
    enum.fold(rep, "leader-path", st, exhaustive=True)
    rep.coverage["rule"] = (
        "every member set of size %s from %r in every order, every subscription map over the topics (each member a "
        "non-empty subset), every partition map with per-topic lists from %r; pushed through decode_join_group_"
        "response -> generate_assignments -> encode_sync_group_request -> strict reference parse -> "
        "decode_sync_group_response -> decode_assignment.  A case is non-trivial (and counted once per "
        "(subscriptions, partitions) pair) when it has >= 2 members and >= 2 partitions." % (
            "1-3" if tier == "quick" else "1-4", IDS, PARTS))
    rep.assumptions = ["small scope: <= %d members, <= 3 topics, partition lists from a fixed menu" % (
        3 if tier == "quick" else 4), "SyncGroup/JoinGroup frames built and parsed by refkafka"]
    if not only or "insitu" in only:
        from checks import _dfs
        rule = rep.coverage["rule"]
        _dfs.run_plans(PROPERTY, "harness.group:GroupWorld",
                       [("leader-in-situ", insitu_configs(tier), (2, 1, 2))],  # thorough: same bound, all four configurations, timers may overtake I/O
                       seed, rule, rep.assumptions, rep=rep, max_steps=500)
        rep.level = "exploration"
        rep.coverage["in_situ_rule"] = (
            "real ConsumerGroup + KafkaClient elected leader of a group with an optional phantom member (subscribed "
            "to t or t+u) over topics t (2 partitions) and u (1); cluster events: t and u each gain a partition, a "
            "partition of t loses its leader (election in progress), "
            "phantom joins / leaves, heartbeat answered REBALANCE_IN_PROGRESS; every SyncGroup request the leader "
            "writes must give each partition that existed when it was elected to exactly one subscriber and nothing "
            "that does not exist.  Non-trivial = the member led at least two generations.")
    return rep
